"""C13 — Every lint output format and lint-file tell the same story as the
exit status.

C01's project population (multi-defect projects, names with spaces and
non-ASCII) is linted in all four formats; the parsed offender sets must agree
per category, exit statuses must agree, --quiet must print nothing, and the
JSON summary must equal the sizes of the JSON's own lists.  Then `lint-file`
on generated subsets F (covered and non-covered files, directories, relative
and absolute paths, from the root, from a sub-directory and from outside with
different --root spellings) must report exactly lint's per-file problems for
the covered files among F.
"""

import os
from pathlib import Path

from hypothesis import strategies as st

from vlib import cli, tree
from vlib.core import hyp_run
from vlib.gen import fullproject as FP
from vlib.gen import project as P
from vlib.ref import inventory as INV
from vlib.ref import lintparse as LP

ID = "C13"
LEVEL = "exploration"
RULE = (
    "Projects as in C01 (compliant-by-construction + 0..4 defects of every category, and fully random ones).  For each: lint --json, --plain, --lines, "
    "--quiet; parsed offender sets per category must be identical (licences mapped between identifier and LICENSES/ path through the description), exit "
    "statuses identical, --quiet silent, JSON summary counters equal to the sizes of the JSON lists.  Then lint-file on a generated subset F of paths "
    "(covered files, excluded files, LICENSES texts, directories; relative or absolute; cwd = root, a sub-directory with --root .. / absolute root, or "
    "outside with --root): reported (path, problem) pairs must equal lint's per-file problems restricted to F, exit 1 iff any; a path outside the root "
    "=> exit 2.  Non-trivial = >= 2 categories non-empty or F mixes covered and non-covered paths; distinct by state + F."
)
ASSUMPTIONS = [
    "vlib/ref/lintparse.py parses the three text formats; file names contain no line break and no ': '",
    "lint's own per-file findings (JSON) are the reference for lint-file (differential between commands)",
]


@st.composite
def case(draw):
    state = draw(st.one_of(FP.project_state(compliant_bias=True), FP.project_state(compliant_bias=True), FP.project_state(compliant_bias=False)))
    picks = draw(st.lists(st.integers(0, 1000), min_size=1, max_size=6))
    mode = draw(st.sampled_from(["root", "root", "subdir-rel", "subdir-abs", "outside-abs", "outside-rel"]))
    absolute = draw(st.booleans())
    outside = draw(st.integers(0, 7)) == 0
    return {"state": state, "picks": picks, "mode": mode, "absolute": absolute, "outside": outside, "mp": draw(st.integers(0, 5)) == 0,
            # one more covered file without information whose NAME ends in white space (a blank, U+3000): every format has to spell it out
            "blankname": draw(st.sampled_from([None, None, None, "notes ", "docs/\u8aac\u660e\u3000", "src/trailing tab\t"]))}


def norm_paths(paths, cwd, root):
    out = set()
    for p in paths:
        q = Path(p)
        if not q.is_absolute():
            q = Path(cwd) / q
        out.add(os.path.relpath(os.path.normpath(q), os.path.realpath(root)) if str(q).startswith(os.path.realpath(root)) else os.path.relpath(os.path.normpath(q), root))
    return out


def check(ctx, c):
    state = c["state"]
    if c.get("blankname") and state["gkind"] != "dep5" and not any(f["path"] == c["blankname"] for f in state["files"]):
        state = dict(state, files=state["files"] + [{"path": c["blankname"], "kind": "text", "style": "python", "own": None, "dotlic": None, "table": None, "para": None,
                                                     "unreadable": None, "block": False}], defects=state["defects"] + ["name-ends-in-white-space"])
    base = ctx.fresh_dir()
    root = base / "proj"
    root.mkdir()
    try:
        FP.materialise(root, state)
        exp = FP.model(state)
        mpflag = [] if c["mp"] else ["--no-multiprocessing"]
        rj = cli.run([*mpflag, "lint", "--json"], root)
        rp = cli.run([*mpflag, "lint", "--plain"], root)
        rd = cli.run([*mpflag, "lint"], root)
        rl = cli.run([*mpflag, "lint", "--lines"], root)
        rq = cli.run([*mpflag, "lint", "--quiet"], root)
        for r in (rj, rp, rd, rl, rq):
            if r.crash is not None or r.code not in (0, 1):
                ctx.fail(c, f"lint failed: {r.brief()}")
        import json

        data = json.loads(rj.out)
        J = LP.from_json(data)
        Pl = LP.parse_plain(rp.out)
        L = LP.parse_lines(rl.out)
        cats = [k for k in ("bad", "deprecated", "noext", "missing", "unused", "read_errors", "no_copyright", "no_licence") if J[k]]
        # ---- exit status / quiet / default format
        codes = {r.code for r in (rj, rp, rd, rl, rq)}
        if len(codes) != 1:
            ctx.fail(c, f"exit statuses differ between formats: json={rj.code} plain={rp.code} default={rd.code} lines={rl.code} quiet={rq.code}")
        if rq.out.strip():
            ctx.fail(c, f"--quiet printed: {rq.out[:300]!r}")
        Pd = LP.parse_plain(rd.out)

        def summ(x):
            return {k: (frozenset(t.strip() for t in v.split(",")) if "," in v else v) for k, v in x["summary"].items()}

        if {k: v for k, v in Pd.items() if k != "summary"} != {k: v for k, v in Pl.items() if k != "summary"} or summ(Pd) != summ(Pl):
            ctx.fail(c, "default output and --plain do not tell the same (order of entries aside)")
        if (rj.code == 0) != bool(data["summary"]["compliant"]):
            ctx.fail(c, f"exit {rj.code} but summary.compliant={data['summary']['compliant']}")
        if Pl["verdict"] is not None and Pl["verdict"] != (rp.code == 0):
            ctx.fail(c, f"--plain verdict line says compliant={Pl['verdict']} but exit status is {rp.code}")
        if L["unparsed"]:
            ctx.fail(c, f"--lines printed lines outside its grammar: {L['unparsed'][:3]}")
        # ---- JSON self-consistency
        s = data["summary"]
        nfiles = len(data["files"])
        used = set()
        for f in data["files"]:
            for e in f["spdx_expressions"]:
                used.update(INV.identifiers(e["value"]))
        probs = []
        if s["files_total"] != nfiles:
            probs.append(f"files_total={s['files_total']} but {nfiles} entries in files[]")
        if s["files_with_copyright_info"] != nfiles - len(J["no_copyright"]):
            probs.append(f"files_with_copyright_info={s['files_with_copyright_info']} but {nfiles} files - {len(J['no_copyright'])} without")
        if s["files_with_licensing_info"] != nfiles - len(J["no_licence"]):
            probs.append(f"files_with_licensing_info={s['files_with_licensing_info']} but {nfiles} files - {len(J['no_licence'])} without")
        if set(s["used_licenses"]) != used:
            probs.append(f"used_licenses={sorted(s['used_licenses'])} but files[] use {sorted(used)}")
        if bool(s["compliant"]) != (not cats):
            probs.append(f"compliant={s['compliant']} but non-empty categories {cats}")
        got_nc = {f["path"] for f in data["files"] if not f["copyrights"]}
        if got_nc != norm_paths(J["no_copyright"], root, root):
            probs.append(f"missing_copyright_info {sorted(J['no_copyright'])} vs files[] without copyrights {sorted(got_nc)}")
        got_nl = {f["path"] for f in data["files"] if not f["spdx_expressions"]}
        if got_nl != norm_paths(J["no_licence"], root, root):
            probs.append(f"missing_licensing_info vs files[] without expressions {sorted(got_nl)}")
        if probs:
            ctx.fail(c, "JSON summary is not consistent with the JSON lists: " + "; ".join(probs))
        # ---- formats agree per category
        prov = {ident: "LICENSES/" + relp for ident, relp in exp["inv"]["provided"].items()}

        def n(paths):
            return norm_paths(paths, root, root)

        def npairs(pairs):
            return {(i, next(iter(n([p])))) for i, p in pairs}

        for cat in ("bad", "missing"):
            a, b, d = npairs(J[cat]), npairs(Pl[cat]), npairs(L[cat])
            if not (a == b == d):
                ctx.fail(c, f"category {cat}: json {sorted(a)} plain {sorted(b)} lines {sorted(d)}")
        for cat in ("read_errors", "no_copyright", "no_licence"):
            a, b, d = n(J[cat]), n(Pl[cat]), n(L[cat])
            if not (a == b == d):
                ctx.fail(c, f"category {cat}: json {sorted(a)} plain {sorted(b)} lines {sorted(d)}")
        for cat in ("deprecated", "noext", "unused"):
            a, b = set(J[cat]), set(Pl[cat])
            d = n(L[cat])
            as_paths = {prov.get(i, f"<no LICENSES path known for {i}>") for i in a}
            if a != b or as_paths != d:
                ctx.fail(c, f"category {cat}: json {sorted(a)} plain {sorted(b)} lines {sorted(d)} (identifier->path {sorted(as_paths)})")
        # plain summary lists
        for key, cat in (("Bad licenses", "bad"), ("Deprecated licenses", "deprecated"), ("Licenses without file extension", "noext"),
                         ("Missing licenses", "missing"), ("Unused licenses", "unused")):
            val = Pl["summary"].get(key)
            ids = {x[0] if isinstance(x, tuple) else x for x in J[cat]}
            got = set() if val in (None, "0") else {x.strip() for x in val.split(",")}
            if got != ids:
                ctx.fail(c, f"--plain summary '{key}: {val}' but JSON has {sorted(ids)}")

        # ---- lint-file
        per_file = {}
        for f in data["files"]:
            pr = set()
            if not f["copyrights"]:
                pr.add("no copyright notice")
            if not f["spdx_expressions"]:
                pr.add("no license identifier")
            per_file[f["path"]] = pr
        for ident, p in npairs(J["missing"]):
            per_file.setdefault(p, set()).add(f"missing license {ident}")
        for p in n(J["read_errors"]):
            per_file.setdefault(p, set()).add("read error")
        everything = sorted(set(per_file) | {"LICENSES/" + r for r in state["licenses"]} | set(state["noise"]) |
                            {str(Path(p).parent) for p in per_file if "/" in p} | ({"REUSE.toml"} if state["gkind"] == "toml" else set()))
        everything = [p for p in everything if os.path.lexists(root / p)]
        chosen = sorted({everything[i % len(everything)] for i in c["picks"]})
        # dangling symlinks cannot be named (click checks existence); symlinks leaving the root are usage errors
        # (a named symlink is resolved to its target by lint-file; whether that is "the file named" is not stated: not passed)
        chosen = [p for p in chosen if os.path.exists(root / p) and not os.path.islink(root / p)]
        mode = c["mode"]
        subdirs = sorted({str(Path(p).parent) for p in per_file if "/" in p})
        if mode.startswith("subdir") and subdirs:
            cwd = root / subdirs[c["picks"][0] % len(subdirs)]
            rootarg = os.path.relpath(root, cwd) if mode == "subdir-rel" else str(root)
            pre = ["--root", rootarg]
        elif mode.startswith("outside"):
            cwd = base
            pre = ["--root", "proj" if mode == "outside-rel" else str(root)]
        else:
            cwd = root
            pre = []
        args = []
        for p in chosen:
            ap = root / p
            args.append(str(ap) if c["absolute"] else os.path.relpath(ap, cwd))
        outside_path = None
        if c["outside"]:
            (base / "elsewhere.py").write_text("x\n")
            outside_path = str(base / "elsewhere.py")
            args.append(outside_path)
        if not args:
            return
        r = cli.run([*pre, *mpflag, "lint-file", "--", *args], cwd)
        covered_in_f = [p for p in chosen if p in per_file and os.path.isfile(root / p) and not os.path.islink(root / p)]
        ctx.count({"state": state, "F": chosen, "mode": mode, "abs": c["absolute"]},
                  nontrivial=len(cats) >= 2 or (bool(covered_in_f) and len(covered_in_f) < len(chosen)),
                  labels=[f"mode:{mode}", f"abs:{c['absolute']}", f"outside:{c['outside']}", f"cats:{min(len(cats), 3)}"] + [f"cat:{k}" for k in cats],
                  sample={"defects": state["defects"], "categories": cats, "F": chosen, "mode": mode, "absolute": c["absolute"], "lint_file_exit": r.code})
        if r.crash is not None:
            ctx.fail(c, f"lint-file crashed: {r.brief()}")
        if outside_path:
            if r.code != 2:
                ctx.fail(c, f"lint-file with a path outside the project root must be a usage error (exit 2), got {r.brief()}")
            return
        if r.code not in (0, 1):
            ctx.fail(c, f"lint-file failed: {r.brief()}")
        LF = LP.parse_lines(r.out)
        if LF["unparsed"] or LF["bad"] or LF["deprecated"] or LF["noext"] or LF["unused"]:
            ctx.fail(c, f"lint-file printed something outside its four per-file problems: {r.out[:500]!r}")
        got = set()
        for ident, p in LF["missing"]:
            got.add((next(iter(norm_paths([p], cwd, root))), f"missing license {ident}"))
        for cat, msg in (("read_errors", "read error"), ("no_licence", "no license identifier"), ("no_copyright", "no copyright notice")):
            for p in LF[cat]:
                got.add((next(iter(norm_paths([p], cwd, root))), msg))
        want = {(p, m) for p in covered_in_f for m in per_file[p]}
        if got != want:
            ctx.fail(c, f"lint-file {args} (cwd={os.path.relpath(cwd, base)}, {pre}) reported {sorted(got)}; lint reports for those files {sorted(want)}")
        if (r.code == 1) != bool(want):
            ctx.fail(c, f"lint-file exit {r.code} but it {'reported' if want else 'had nothing to report'}: {sorted(want)}")
        rq2 = cli.run([*pre, *mpflag, "lint-file", "--quiet", "--", *args], cwd)
        if rq2.out.strip() or rq2.code != r.code:
            ctx.fail(c, f"lint-file --quiet: output {rq2.out[:200]!r}, exit {rq2.code} vs {r.code}")
        tw = state.get("twin")
        if tw and tw[0] in per_file and tw[1] in per_file:
            # F = a file, and a file from another directory in which an UNNAMED file has the first one's base name
            d2 = str(Path(tw[1]).parent)
            mates = sorted(p for p in per_file if str(Path(p).parent) == d2 and p != tw[1] and os.path.isfile(root / p) and not os.path.islink(root / p))
            if mates:
                F2 = [tw[0], mates[0]]
                a2 = [str(root / p) if c["absolute"] else os.path.relpath(root / p, cwd) for p in F2]
                r3 = cli.run([*pre, *mpflag, "lint-file", "--", *a2], cwd)
                ctx.label("lint-file:same-base-name-in-two-directories")
                if r3.crash is not None or r3.code not in (0, 1):
                    ctx.fail(c, f"lint-file failed: {r3.brief()}")
                L3 = LP.parse_lines(r3.out)
                got3 = {(next(iter(norm_paths([p], cwd, root))), f"missing license {ident}") for ident, p in L3["missing"]}
                for cat, msg in (("read_errors", "read error"), ("no_licence", "no license identifier"), ("no_copyright", "no copyright notice")):
                    got3 |= {(next(iter(norm_paths([p], cwd, root))), msg) for p in L3[cat]}
                want3 = {(p, m) for p in F2 for m in per_file[p]}
                if got3 != want3 or (r3.code == 1) != bool(want3):
                    ctx.fail(c, f"lint-file {a2} (cwd={os.path.relpath(cwd, base)}, {pre}) exit {r3.code} reported {sorted(got3)}; lint reports for those files {sorted(want3)}")
    finally:
        tree.rmtree(base)


def replay(ctx, c):
    check(ctx, c)


def run(ctx):
    q = ctx.tier == "quick"
    hyp_run(ctx, "projects", case(), lambda c: check(ctx, c), 70 if q else 1800)
