"""C18 — The SPDX bill of materials is a faithful, well-formed image of the
project.

C01's project population, extended with files sized around multiples of the
checksum chunk (8192), duplicate files (same base name and content in two
directories), deeper expressions, LicenseRef- texts; every option combination
of `reuse spdx`.  The document is read by an independent tag-value parser and
cross-checked with `reuse lint --json`, hashlib.sha1 and a truth-table
equivalence check for LicenseConcluded.
"""

import hashlib
import re

from hypothesis import strategies as st

from vlib import cli, tree
from vlib.core import hyp_run
from vlib.gen import fullproject as FP
from vlib.gen import project as P
from vlib.ref import boolexpr as BX
from vlib.ref import inventory as INV
from vlib.ref import spdxtv as TV

ID = "C18"
LEVEL = "exploration"
RULE = (
    "Projects as in C01 (all source kinds, defects, binaries, names with spaces / non-ASCII, Git or not) with expression depth <= 2 (AND / OR / WITH "
    "nesting, several expressions per file), optionally one file padded to a size in {1, 8191, 8192, 8193, 16384, 16385, 24577, 65535, 65536, 65537, 131073, 200001} bytes, optionally a "
    "byte-identical copy of a file under the same base name in another directory, LicenseRef- texts (multi-line, non-ASCII), optionally one more unused LicenseRef- text (names containing 'Unknown', other extensions); started in the project root or from an unrelated directory (holding LICENSES/ of its own) with --root; options: "
    "--add-license-concluded (with --creator-person / --creator-organization, with and without '(...)'), -o FILE, worker pool on/off.  Oracle: "
    "independent tag-value reader; FileName set = lint's file set; SPDXIDs unique and in bijection with DESCRIBES; FileChecksum = hashlib.sha1; "
    "LicenseInfoInFile set and FileCopyrightText lines = lint's; LicenseConcluded NOASSERTION / NONE / truth-table-equivalent to the conjunction; "
    "every LicenseRef- in LICENSES/ has LicenseID + ExtractedText = file text; mandatory document tags; usage error without creator.  Non-trivial = "
    ">= 2 files and (a file with >= 2 expressions or a WITH) and the flag on; distinct by state + options."
)
ASSUMPTIONS = [
    "vlib/ref/spdxtv.py reads tag-value; vlib/ref/boolexpr.py decides equivalence (WITH pairs atomic)",
    "texts and notices never contain '</text>' (inexpressible in tag-value)",
]
SIZES = [1, 8191, 8192, 8193, 16384, 16385, 24577, 65535, 65536, 65537, 131073, 200001]
MANDATORY = ["SPDXVersion", "DataLicense", "SPDXID", "DocumentName", "DocumentNamespace", "Creator", "Created"]


@st.composite
def case(draw):
    state = draw(st.one_of(FP.project_state(compliant_bias=True, expr_depth=2), FP.project_state(compliant_bias=False, expr_depth=2)))
    texts = [i for i, f in enumerate(state["files"]) if f["kind"] == "text" and f["path"] != ".gitignore"]
    pad = None
    if texts and draw(st.booleans()):
        pad = (draw(st.sampled_from(texts)), draw(st.sampled_from(SIZES)))
    dup = None
    if state["files"] and draw(st.integers(0, 2)) == 0:
        dup = draw(st.integers(0, len(state["files"]) - 1))
    concluded = draw(st.booleans())
    person = draw(st.sampled_from([None, "Jane Doe", "Jane Doe (jane@example.org)", "Zoë (x)"]))
    org = draw(st.sampled_from([None, "ACME", "ACME (info@acme.example)"]))
    # one more custom licence text that no file uses, under names the tool might treat specially
    extra = draw(st.sampled_from([None, None, "LicenseRef-spare.txt", "LicenseRef-Vendor-Unknown-terms.txt", "LicenseRef-UnknownOrigin.md", "LicenseRef-a.b.text"]))
    if extra is not None and not any(r.rsplit(".", 1)[0] == extra.rsplit(".", 1)[0] or r == extra for r in state["licenses"]):
        state = dict(state, licenses=state["licenses"] + [extra])
    return {"state": state, "pad": pad, "dup": dup, "concluded": concluded, "person": person, "org": org,
            # ('@basename': written elsewhere, under the bare name of a covered file that lives in a sub-directory of the project)
            "outfile": draw(st.sampled_from([None, None, "out.spdx", "sub dir/bom.spdx", "@basename"])), "mp": draw(st.integers(0, 4)) == 0,
            # where the command is started: in the project root, or somewhere else with --root <absolute path>
            "cwd": draw(st.sampled_from(["root", "root", "outside"]))}


def check(ctx, c):
    state = c["state"]
    # duplicate file: same base name, same bytes, other directory
    if c["dup"] is not None and c["dup"] < len(state["files"]):
        src = state["files"][c["dup"]]
        base = src["path"].rsplit("/", 1)[-1]
        newp = "dupdir/" + base
        if state["gkind"] != "dep5" or " " not in newp:
            if not any(f["path"] == newp for f in state["files"]) and src["path"] != ".gitignore" and not src["unreadable"]:
                cp = {k: (dict(v) if isinstance(v, dict) else v) for k, v in src.items()}
                cp["path"] = newp
                state = dict(state, files=state["files"] + [cp])
    if c["pad"] is not None:
        i, size = c["pad"]
        f = state["files"][i]
        o = f["own"] or {"cop": [], "lic": []}
        base_len = len(P.header_text(f["style"], o["cop"], o["lic"], block=f["block"], extra_invalid=o.get("bad"), body="").encode())
        if size > base_len:
            files2 = list(state["files"])
            files2[i] = dict(f, body="x" * (size - base_len - 1) + "\n" if size - base_len >= 1 else "")
            state = dict(state, files=files2)
    root = ctx.fresh_dir()
    try:
        FP.materialise(root, state)
        if c["outfile"] == "@basename":
            nested = sorted(f["path"] for f in state["files"] if "/" in f["path"] and not f["unreadable"])
            c = dict(c, cwd="outside", outfile="@" + nested[0].rsplit("/", 1)[-1]) if nested else dict(c, outfile="out.spdx")
        if c["outfile"] and "/" in c["outfile"]:
            (root / c["outfile"]).parent.mkdir(parents=True, exist_ok=True)
            (root / c["outfile"]).parent.joinpath("keep.license").write_text("x\n")  # not a covered file
        mpflag = [] if c["mp"] else ["--no-multiprocessing"]
        res_l, lint = tree.lint_json(root, mp=c["mp"])
        if lint is None:
            ctx.fail(c, f"lint --json failed: {res_l.brief()}")
        args = [*mpflag, "spdx"]
        if c["concluded"]:
            args.append("--add-license-concluded")
        if c["person"]:
            args += ["--creator-person", c["person"]]
        if c["org"]:
            args += ["--creator-organization", c["org"]]
        elsewhere_out = c["outfile"][1:] if c["outfile"] and c["outfile"].startswith("@") else None
        if elsewhere_out:
            args += ["-o", elsewhere_out]
        elif c["outfile"]:
            args += ["-o", c["outfile"] if c.get("cwd") != "outside" else str(root / c["outfile"])]
        run_cwd = root
        if c.get("cwd") == "outside":
            run_cwd = ctx.fresh_dir("elsewhere")
            (run_cwd / "LICENSES").mkdir()
            (run_cwd / "LICENSES" / "LicenseRef-spare.txt").write_text("text of an unrelated project\n")
            args = ["--root", str(root), *args]
        res = cli.run(args, run_cwd)
        lint_files = {f["path"]: f for f in lint["files"]}
        nexpr = max((len(f["spdx_expressions"]) for f in lint["files"]), default=0)
        has_with = any(" WITH " in e["value"] for f in lint["files"] for e in f["spdx_expressions"])
        ctx.count({"state": state, "opts": {k: c[k] for k in ("concluded", "person", "org", "outfile", "mp", "cwd") if k in c}},
                  nontrivial=len(lint_files) >= 2 and (nexpr >= 2 or has_with) and c["concluded"],
                  labels=[f"concluded:{c['concluded']}", f"creator:{bool(c['person'] or c['org'])}", f"outfile:{'elsewhere, named like a covered file' if elsewhere_out else bool(c['outfile'])}", f"cwd:{c.get('cwd', 'root')}", f"pad:{c['pad'][1] if c['pad'] else None}",
                          f"dup:{c['dup'] is not None}", f"max-expr-per-file:{min(nexpr, 3)}", f"with:{has_with}"],
                  sample={"files": sorted(lint_files), "options": args, "defects": state["defects"]})
        if res.crash is not None:
            ctx.fail(c, f"spdx crashed: {res.brief()}")
        if c["concluded"] and not c["person"] and not c["org"]:
            if res.code != 2:
                ctx.fail(c, f"--add-license-concluded without a creator must be a usage error (exit 2): {res.brief()}")
            if c["outfile"] and ((run_cwd / elsewhere_out) if elsewhere_out else (root / c["outfile"])).exists():
                ctx.fail(c, "usage error, yet the output file was created")
            return
        if res.code != 0:
            ctx.fail(c, f"spdx failed: {res.brief()}")
        if c["outfile"]:
            if res.out.strip():
                ctx.fail(c, f"-o given but stdout has {res.out[:200]!r}")
            doc = ((run_cwd / elsewhere_out) if elsewhere_out else (root / c["outfile"])).read_text(encoding="utf-8")
        else:
            doc = res.out
        try:
            pairs = TV.parse(doc)
        except TV.TagValueError as e:
            ctx.fail(c, f"document does not parse as SPDX tag-value: {e}")
        docp, files, lics = TV.sections(pairs)
        tags = [t for t, _ in docp]
        for m in MANDATORY:
            if m not in tags:
                ctx.fail(c, f"mandatory document tag {m} is missing")
        doc_d = {}
        for t, v in docp:
            doc_d.setdefault(t, []).append(v)
        if doc_d["SPDXID"] != ["SPDXRef-DOCUMENT"] or not doc_d["SPDXVersion"][0].startswith("SPDX-"):
            ctx.fail(c, f"document header wrong: {doc_d['SPDXID']} {doc_d['SPDXVersion']}")
        creators = doc_d.get("Creator", [])
        want_p = (c["person"] if (c["person"] and "(" in c["person"] and c["person"].endswith(")")) else f"{c['person']} ()") if c["person"] else "Anonymous ()"
        want_o = (c["org"] if (c["org"] and "(" in c["org"] and c["org"].endswith(")")) else f"{c['org']} ()") if c["org"] else "Anonymous ()"
        if f"Person: {want_p}" not in creators or f"Organization: {want_o}" not in creators:
            ctx.fail(c, f"Creator lines {creators}, expected Person: {want_p} / Organization: {want_o}")
        described = [v.split(" DESCRIBES ", 1)[1] for t, v in docp if t == "Relationship" and v.startswith("SPDXRef-DOCUMENT DESCRIBES ")]
        # ---- file sections
        names = []
        ids = []
        for sec in files:
            d = {}
            for t, v in sec:
                d.setdefault(t, []).append(v)
            name = d["FileName"][0]
            names.append(name)
            if not name.startswith("./"):
                ctx.fail(c, f"FileName {name!r} does not start with ./")
            relp = name[2:]
            if len(d.get("SPDXID", [])) != 1 or len(d.get("FileChecksum", [])) != 1 or len(d.get("LicenseConcluded", [])) != 1 or len(d.get("FileCopyrightText", [])) != 1:
                ctx.fail(c, f"file section of {name} lacks a tag or repeats one: {sorted(d)}")
            ids.append(d["SPDXID"][0])
            if relp not in lint_files:
                continue  # judged below via the set comparison
            lf = lint_files[relp]
            sha = hashlib.sha1((root / relp).read_bytes()).hexdigest()
            if d["FileChecksum"][0] != f"SHA1: {sha}":
                ctx.fail(c, f"{name}: FileChecksum {d['FileChecksum'][0]}, file's SHA-1 is {sha} ({(root / relp).stat().st_size} bytes)")
            want_ids = set()
            for e in lf["spdx_expressions"]:
                want_ids.update(INV.identifiers(e["value"]))
            if set(d.get("LicenseInfoInFile", [])) != want_ids:
                ctx.fail(c, f"{name}: LicenseInfoInFile {sorted(set(d.get('LicenseInfoInFile', [])))}, lint attributes {sorted(want_ids)}")
            cops = {x["value"] for x in lf["copyrights"]}
            got_c = d["FileCopyrightText"][0]
            if cops:
                if set(got_c.split("\n")) != cops:
                    ctx.fail(c, f"{name}: FileCopyrightText {got_c!r}, lint attributes {sorted(cops)}")
            elif got_c != "NONE":
                ctx.fail(c, f"{name}: FileCopyrightText {got_c!r} but lint attributes no notice (expected NONE)")
            lc = d["LicenseConcluded"][0]
            exprs = [e["value"] for e in lf["spdx_expressions"]]
            if not c["concluded"]:
                if lc != "NOASSERTION":
                    ctx.fail(c, f"{name}: LicenseConcluded {lc!r} without --add-license-concluded (expected NOASSERTION)")
            elif not exprs:
                if lc != "NONE":
                    ctx.fail(c, f"{name}: LicenseConcluded {lc!r} for a file without expressions (expected NONE)")
            else:
                try:
                    ok = BX.equivalent(lc, exprs)
                except BX.ParseError as e:
                    if any(len(BX.atoms(BX.parse(x))) > 12 for x in exprs):
                        ok = True
                    else:
                        ctx.fail(c, f"{name}: LicenseConcluded {lc!r} does not parse: {e}")
                if not ok:
                    ctx.fail(c, f"{name}: LicenseConcluded {lc!r} is not equivalent to the conjunction of {exprs}")
        want_names = {"./" + p for p in lint_files}
        if set(names) != want_names or len(names) != len(set(names)):
            ctx.fail(c, f"File sections {sorted(names)} vs lint's files {sorted(want_names)}")
        if len(set(ids)) != len(ids):
            dup = sorted({i for i in ids if ids.count(i) > 1})
            ctx.fail(c, f"SPDXIDs are not unique: {dup} (files {[n for n, i in zip(names, ids) if i in dup]})")
        if sorted(described) != sorted(ids):
            ctx.fail(c, f"DESCRIBES relationships {sorted(described)} are not in bijection with the file SPDXIDs {sorted(ids)}")
        for i in ids:
            if not re.match(r"^SPDXRef-[A-Za-z0-9.\-]+$", i):
                ctx.fail(c, f"malformed SPDXID {i!r}")
        # ---- extracted licences
        got_l = {}
        for sec in lics:
            d = dict(sec)
            got_l[d["LicenseID"]] = d.get("ExtractedText")
        want_l = {}
        for relname in state["licenses"]:
            ident, _ = INV.provided_identifier(relname, P.spdx_data())
            if INV.is_licenseref(ident):
                want_l[ident] = (root / "LICENSES" / relname).read_text(encoding="utf-8")
        if got_l != want_l:
            ctx.fail(c, f"extracted licences {got_l} vs LicenseRef- texts in LICENSES/ {want_l}")
    finally:
        tree.rmtree(root)


def replay(ctx, c):
    if c.get("pad"):
        c["pad"] = tuple(c["pad"])
    check(ctx, c)


def run(ctx):
    q = ctx.tier == "quick"
    hyp_run(ctx, "projects", case(), lambda c: check(ctx, c), 90 if q else 2000)
