"""C09 — Annotate accumulates information and never drops any.

Rule-based state machine: one file (empty / body only / hand-written header in
its own style / header in a foreign style / .license sibling) and a running
model of everything declared so far.  Rules are annotate invocations with
generated holders, licences, contributors, prefixes, years, --style (same or
different), --multi-line, --no-replace, --merge-copyrights, --skip-existing,
default or custom templates.  Invariant after every successful step: the
information read back by the tool's own linter / reader is a superset of the
model before the step plus the request; with --merge-copyrights holder-wise:
no holder lost, each holder's lines span every year stated for it so far.
"""

import hypothesis
from hypothesis import HealthCheck, Phase, settings
from hypothesis import strategies as st
from hypothesis.stateful import RuleBasedStateMachine, initialize, invariant, precondition, rule, run_state_machine_as_test

from vlib import Violation, HarnessError
from vlib import annot as AN
from vlib import cli, tree
from vlib.core import derive_seed
from vlib.gen import project as P
from vlib.gen import styles as S
from vlib.gen import values as V

ID = "C09"
LEVEL = "exploration"
RULE = (
    "Histories of 1..6 annotate invocations on one file.  Initial state: {empty, body only, hand-written header in the file's own style (single or block), "
    "header in a foreign style, information in FILE.license}; file type from 12 styles; target FILE or (fixed per history) FILE.license.  Each step draws "
    "0..2 holders (from a small pool, so holders recur with different years), 0..2 licences, 0..2 contributors, prefix, 0..3 --year / --exclude-year, "
    "--style same / other, --multi-line, --no-replace, --merge-copyrights, --skip-existing, template {default, prose, without contributors, dropping licences / copyright (plain and pre-commented): a success must not lose anything}.  Invariant "
    "after each step that reports success: licences and (while every template so far renders them) contributors read back literally as a superset of "
    "model U request; copyright notices literally until the first merge step, and always holder-wise (no holder lost, year span of each holder covers all "
    "years stated so far).  A skipped or failing step must leave the file byte-identical.  Non-trivial = history with >= 2 successful steps of which one "
    "changes style, line mode or template or uses merge; distinct by history."
)
ASSUMPTIONS = [
    "headers stay below the 4 KiB window (histories are cut before 3.8 KB; the window is C02's subject)",
    "holders never end in a comment terminator / comment character",
]

CTX = None
FILE_STYLES = ["python", "c", "cpp", "html", "julia", "lisp", "bat", "jinja", "tex", "haskell", "ml", "plantuml"]
# identifiers that differ in letter case only are different licences; they meet over the steps of a history
CASE_TWINS = ["LicenseRef-acme", "LicenseRef-ACME", "LicenseRef-Acme"]
HOLDER_POOL = ["Jane Doe", "ACME, Inc.", "Zoë Müller <zoe@example.org>", "The Project Authors", "Foo & Bar GmbH"]


class AnnotateMachine(RuleBasedStateMachine):
    def __init__(self):
        super().__init__()
        self.ctx = CTX
        self.root = None
        self.history = []
        self.ok_steps = 0
        self.interesting = False

    @initialize(style=st.sampled_from(FILE_STYLES), init=st.sampled_from(["empty", "body", "own-single", "own-block", "foreign", "dotlicense", "ignore-blocks"]),
                force_dot=st.integers(0, 4), h=st.sampled_from(HOLDER_POOL), y=V.year(),
                lic=st.sampled_from(["MIT", "GPL-3.0-or-later", "Apache-2.0 OR MIT", "LicenseRef-acme"]), con=st.sampled_from(HOLDER_POOL))
    def setup(self, style, init, force_dot, h, y, lic, con):
        self.root = self.ctx.fresh_dir()
        self.style = style
        self.name = "file" + S.EXT_FOR_STYLE[style]
        self.force_dot = force_dot == 0 or init == "dotlicense"
        AN.install_templates(self.root)
        self.cop, self.lic, self.con = set(), set(), set()
        self.years = {}  # holder -> (lo, hi) or None
        self.merged = False
        self.con_tracked = True
        notice = V.notice("spdx", y, h)
        files = {}
        body = "first line of code\nsecond line\n"
        if init == "empty":
            files[self.name] = "" if not self.force_dot else "x\n"
        elif init == "body":
            files[self.name] = body
        elif init == "ignore-blocks":
            # two comments that each hold a closed ignore block quoting tags: neither is a header, nothing is declared
            def wrap(ls):
                return "\n".join(S.wrap_single(style, ls) if S.has_single(style) else S.wrap_block(style, ls)) + "\n"

            files[self.name] = (wrap(["REUSE-IgnoreStart", "SPDX-License-Identifier: LicenseRef-quoted", "REUSE-IgnoreEnd"]) + "\n" + body + "\n"
                                + wrap(["REUSE-IgnoreStart", "Copyright (C) 1998 Quoted Holder", "SPDX-License-Identifier: LicenseRef-quoted", "REUSE-IgnoreEnd"]) + "more code\n")
            if self.force_dot:
                files[self.name] = body
        elif init in ("own-single", "own-block", "foreign"):
            if self.force_dot:
                files[self.name] = body
                files[self.name + ".license"] = P.header_text("none", [notice], [lic], [con], body="")
            else:
                hs = style if init != "foreign" else ("cpp" if style not in ("cpp", "c") else "python")
                files[self.name] = P.header_text(hs, [notice], [lic], [con], body=body, block=init == "own-block")
            self._learn({notice}, {lic}, {con})
        else:
            files[self.name] = body
            files[self.name + ".license"] = P.header_text("none", [notice], [lic], [con], body="")
            self._learn({notice}, {lic}, {con})
        tree.write_tree(self.root, files)
        self.history.append({"init": init, "style": style, "force_dot": self.force_dot, "notice": notice, "lic": lic, "con": con})

    def _learn(self, cop, lic, con):
        self.cop |= set(cop)
        self.lic |= {AN.norm_expr(x) for x in lic}
        self.con |= set(con)
        for line in cop:
            parsed = V.parse_notice(line)
            if parsed is None:
                raise HarnessError(f"generated notice does not parse: {line!r}")
            _p, yrs, holder = parsed
            cur = self.years.get(holder, "absent")
            if cur == "absent":
                self.years[holder] = yrs
            elif yrs is not None:
                self.years[holder] = yrs if cur is None else (min(cur[0], yrs[0]), max(cur[1], yrs[1]))

    def _target(self):
        return self.name + ".license" if (self.root / (self.name + ".license")).exists() else self.name

    @precondition(lambda self: self.root is not None and len(self.history) <= 6)
    @rule(holders=st.lists(st.sampled_from(HOLDER_POOL), max_size=2, unique=True), licences=st.lists(st.one_of(V.expression(1), V.expression(1), st.sampled_from(CASE_TWINS)), max_size=2, unique=True),
          contributors=st.lists(st.sampled_from(HOLDER_POOL), max_size=2, unique=True),
          prefix=st.one_of(st.none(), st.sampled_from(sorted(V.PREFIXES))),
          years=st.one_of(st.lists(st.integers(1980, 2030).map(str), min_size=0, max_size=3), st.lists(V.year(), min_size=1, max_size=1)),
          exclude=st.booleans(), other_style=st.one_of(st.none(), st.none(), st.sampled_from(sorted(S.STYLES))), multi=st.booleans(),
          no_replace=st.integers(0, 4), merge=st.integers(0, 2), skip_existing=st.integers(0, 6), template=st.sampled_from([None, None, None, None, "prose", "prose", "nocontrib", "nocontrib", "droplic", "cdroplic", "dropcop", "cdropcop"]))
    def annotate(self, holders, licences, contributors, prefix, years, exclude, other_style, multi, no_replace, merge, skip_existing, template):
        if not (holders or licences or contributors):
            holders = [HOLDER_POOL[0]]
        if not years:
            exclude = True
        else:
            exclude = False
        req = {"holders": holders, "licences": licences, "contributors": contributors, "prefix": prefix, "years": years, "exclude_year": exclude}
        use_style = other_style if not self.force_dot else None
        eff = use_style or self.style
        args = ["annotate", *AN.request_args(req)]
        if use_style:
            args += ["--style", use_style]
        do_multi = multi and S.has_multi(eff) and not self.force_dot
        if do_multi:
            args.append("--multi-line")
        if no_replace == 0:
            args.append("--no-replace")
        if merge == 0:
            args.append("--merge-copyrights")
        if skip_existing == 0:
            args.append("--skip-existing")
        if template:
            args += ["--template", template]
        if self.force_dot:
            args.append("--force-dot-license")
        args.append(self.name)
        target = self._target()
        before = AN.snapshot(self.root)
        res = cli.run(args, self.root)
        after = AN.snapshot(self.root)
        step = {"args": args, "exit": res.code, "out": res.out[:200]}
        self.history.append(step)
        if res.crash is not None:
            self.ctx.label("crash-left-to-C16")
            return
        changed = {p for p in set(before) | set(after) if before.get(p) != after.get(p)}
        success = res.code == 0 and "Successfully changed header of" in res.out
        if not success:
            if changed - {self.name + ".license"} or (changed and (after.get(self.name + ".license") not in (None, b"") or before.get(self.name + ".license") is not None)):
                raise Violation({"history": self.history}, f"step did not report success (exit {res.code}, {res.out[:200]!r}) but changed {sorted(changed)}")
            self.ctx.label("step:skipped-or-failed")
            return
        self.ok_steps += 1
        if use_style or do_multi or template or merge == 0 or no_replace == 0:
            self.interesting = True
        if merge == 0:
            self.merged = True
        norender = template == "nocontrib" or template in AN.DROPPING
        if norender and no_replace != 0:
            self.con_tracked = False  # a replaced header is re-rendered without its contributors
        if template in AN.DROPPING:
            self.ctx.label("step:dropping-template-succeeded")
        self._learn(AN.requested_notices(req), licences, contributors if not norender else [])
        self._check(f"after step {len(self.history) - 1} ({' '.join(args)})")

    def _check(self, when):
        target = self.root / self._target()
        if target.stat().st_size > 3800:
            self.ctx.label("history-cut:near-4KiB-window")
            self.history.append({"cut": True})
            return
        cop, lic, con, lres = AN.read_back(self.root, self.name)
        case = {"history": self.history}
        if cop is None:
            raise Violation(case, f"{when}: lint --json does not list the file: {lres.brief()}")
        if not self.lic <= lic:
            raise Violation(case, f"{when}: licences lost: {sorted(map(str, self.lic - lic))} (read back {sorted(map(str, lic))})")
        if self.con_tracked and con is not None and not self.con <= con:
            raise Violation(case, f"{when}: contributors lost: {sorted(self.con - con)} (read back {sorted(con)})")
        if not self.merged and not self.cop <= cop:
            raise Violation(case, f"{when}: copyright notices lost: {sorted(self.cop - cop)} (read back {sorted(cop)})")
        got = {}
        for line in cop:
            parsed = V.parse_notice(line)
            if parsed is None:
                raise Violation(case, f"{when}: read-back line {line!r} is not a notice")
            _p, yrs, holder = parsed
            cur = got.get(holder, "absent")
            if cur == "absent":
                got[holder] = yrs
            elif yrs is not None:
                got[holder] = yrs if cur is None else (min(cur[0], yrs[0]), max(cur[1], yrs[1]))
        for holder, want in self.years.items():
            if holder not in got:
                raise Violation(case, f"{when}: holder {holder!r} lost (read back {sorted(cop)})")
            if want is not None and (got[holder] is None or got[holder][0] > want[0] or got[holder][1] < want[1]):
                raise Violation(case, f"{when}: holder {holder!r} has years {got[holder]}, must span {want} (read back {sorted(cop)})")

    def teardown(self):
        if self.root is not None:
            self.ctx.count({"history": self.history}, nontrivial=self.ok_steps >= 2 and self.interesting,
                           labels=[f"ok-steps:{min(self.ok_steps, 4)}", f"init:{self.history[0]['init']}", f"merged:{self.merged}", f"force_dot:{self.force_dot}"],
                           sample=self.history)
            tree.rmtree(self.root)


def replay(ctx, case):
    if "directed" in case:
        return check_directed(ctx, next(d for d in DIRECTED if d["name"] == case["directed"]), case["style"])
    """Re-run a recorded history outside Hypothesis."""
    hist = case["history"]
    init = hist[0]
    root = ctx.fresh_dir()
    try:
        m = AnnotateMachine.__new__(AnnotateMachine)
        m.ctx, m.root, m.history, m.ok_steps, m.interesting = ctx, None, [], 0, False
        # rebuild initial files through the same code path
        globals()["CTX"] = ctx
        AnnotateMachine.setup(m, init["style"], init["init"], 0 if init["force_dot"] and init["init"] != "dotlicense" else 1,
                              V.parse_notice(init["notice"])[2], init["notice"].split(" ", 1)[1][: -len(V.parse_notice(init["notice"])[2])].strip(), init["lic"], init["con"])
        for step in hist[1:]:
            if "args" not in step:
                continue
            before = AN.snapshot(m.root)
            res = cli.run(step["args"], m.root)
            if res.code == 0 and "Successfully changed header of" in res.out:
                args = step["args"]

                def vals(flag):
                    return [args[i + 1] for i, a in enumerate(args[:-1]) if a == flag]

                req = {"holders": vals("--copyright"), "licences": vals("--license"), "contributors": vals("--contributor"),
                       "prefix": (vals("--copyright-prefix") or [None])[0], "years": vals("--year"), "exclude_year": "--exclude-year" in args}
                if "--merge-copyrights" in args:
                    m.merged = True
                tmpl = (vals("--template") or [None])[0]
                if tmpl == "nocontrib" and "--no-replace" not in args:
                    m.con_tracked = False
                m._learn(AN.requested_notices(req), req["licences"], req["contributors"] if tmpl != "nocontrib" else [])
                m.history.append(step)
                m._check(f"after replayed step ({' '.join(args)})")
        tree.rmtree(m.root)
    finally:
        if root.exists():
            tree.rmtree(root)


DIRECTED = [
    # what the second run asks for is, line by line, a textual beginning of what the header already says: it still has to be added
    {"name": "prefix-of-existing", "init": None,
     "steps": [["--copyright", "Jane Doe <jane@example.org>", "--year", "2020", "--license", "MIT-0", "--contributor", "John Smith Jr."],
               ["--copyright", "Jane Doe", "--year", "2020", "--license", "MIT", "--contributor", "John Smith"]],
     "want_cop": ["SPDX-FileCopyrightText: 2020 Jane Doe <jane@example.org>", "SPDX-FileCopyrightText: 2020 Jane Doe"], "want_lic": ["MIT-0", "MIT"],
     "want_con": ["John Smith Jr.", "John Smith"]},
    # a holder whose name begins with a copyright marker word, stated for two years; merging keeps holder, prefix and span
    {"name": "merge-holder-beginning-with-a-marker-word", "init": ["SPDX-FileCopyrightText: 2016 Copyright Clearance Center", "SPDX-FileCopyrightText: 2019 Copyright Clearance Center", "",
                                                                   "SPDX-License-Identifier: ISC"],
     "steps": [["--merge-copyrights", "--license", "MIT"]], "want_holder_span": ("Copyright Clearance Center", 2016, 2019), "want_lic": ["ISC", "MIT"], "want_cop": [], "want_con": []},
    # the existing notices use prefixes that the reader accepts and the table of writable prefixes does not list
    {"name": "merge-unlisted-prefix", "init": ["Copyright (c) 2019 Jane Doe", "SPDX-FileCopyrightText: (c) 2017 Jane Doe", "", "SPDX-License-Identifier: ISC"],
     "steps": [["--merge-copyrights", "--copyright", "Jane Doe", "--year", "2021"]], "want_holder_span": ("Jane Doe", 2017, 2021), "want_lic": ["ISC"], "want_cop": [], "want_con": []},
]


def check_directed(ctx, d, style):
    name = "file" + S.EXT_FOR_STYLE[style]
    root = ctx.fresh_dir()
    try:
        body = "first line of code\n"
        if d["init"]:
            body = "\n".join(S.wrap_single(style, d["init"]) if S.has_single(style) else S.wrap_block(style, d["init"])) + "\n\n" + body
        tree.write_tree(root, {name: body})
        case = {"directed": d["name"], "style": style}
        for step in d["steps"]:
            res = cli.run(["annotate", *step, name], root)
            if res.crash is not None:
                ctx.fail(case, f"annotate {step} ended in {type(res.crash).__name__}: {res.crash}")
            if res.code != 0:
                ctx.fail(case, f"annotate {step} failed on a plain file: {res.brief()}")
        cop, lic, con, _r = AN.read_back(root, name)
        ctx.count(("directed", d["name"], style), nontrivial=True, labels=["directed-history", f"directed:{d['name']}"], sample={"history": d["name"], "style": style, "steps": d["steps"]})
        if cop is None:
            ctx.fail(case, "lint does not list the file after the history")
        missing = [x for x in d["want_cop"] if x not in cop] + [x for x in d["want_lic"] if AN.norm_expr(x) not in lic] + [x for x in d["want_con"] if x not in (con or set())]
        if missing:
            ctx.fail(case, f"after {d['steps']} the file does not declare {missing}: read back copyrights={sorted(cop)} licences={sorted(map(str, lic))} contributors={sorted(con or [])}")
        if d.get("want_holder_span"):
            holder, lo, hi = d["want_holder_span"]
            mine = [V.parse_notice(x) for x in cop]
            mine = [m for m in mine if m and m[2] == holder]
            if not mine or not any(m[1] and m[1][0] <= lo and m[1][1] >= hi for m in mine):
                ctx.fail(case, f"after merging, holder {holder!r} should keep a notice spanning {lo}-{hi}: read back {sorted(cop)}")
    finally:
        tree.rmtree(root)


def run(ctx):
    global CTX
    k = 0
    for d in DIRECTED:
        for style in ("python", "c", "html", "lisp", "bat", "tex"):
            k += 1
            if k % ctx.nshards == ctx.shard:
                check_directed(ctx, d, style)
    CTX = ctx
    q = ctx.tier == "quick"
    phases = [Phase.generate] + ([Phase.shrink] if not q else [])
    machine = hypothesis.seed(derive_seed(ctx.seed, ID, "machine", ctx.shard))(AnnotateMachine)
    try:
        run_state_machine_as_test(
            machine,
            settings=settings(max_examples=120 if q else 1500, stateful_step_count=7, deadline=None, database=None, report_multiple_bugs=False,
                              phases=phases, suppress_health_check=list(HealthCheck), print_blob=False),
        )
    except Violation as v:
        ctx.record_violation(v)
