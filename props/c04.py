"""C04 — Per-file sources and precedence follow the specification.

Finite cell space, enumerated: own information x .license sibling x a chain of
up to three REUSE.toml files (root, d/, d/e/), each with no matching table,
one matching table (precedence x information) or two matching tables (the
later one must win); and the same file grid under .reuse/dep5.  Many cells per
generated project: each cell is its own file ``d/e/f<k>.txt`` addressed by
exact-path tables.  Every piece of information is a unique token, so the
provenance of every reported item is unambiguous.  Oracle:
vlib.ref.attribution (from the property text).
"""

import itertools

from vlib import tree
from vlib.ref import attribution as A

ID = "C04"
LEVEL = "exploration"
SHARDS = {"quick": 16, "thorough": 16}
RULE = (
    "Cell = own info {none, copyright, licence, both, unparseable, binary} x .license sibling {absent, empty, copyright, licence, both} x per REUSE.toml "
    "level (root, d/, d/e/) one of 25 options {no matching table, one table (3 precedences x 4 info shapes), two matching tables where the later (exact) one "
    "must win}.  ALL 30 x 25^2 = 18 750 two-level cells in quick (on levels (root, d/e) and (d, d/e)), ALL 30 x 24^3 three-level cells in thorough "
    "(sampled 1/64 in quick); plus the dep5 grid (30 x {no paragraph, one, two matching paragraphs}).  ~150 cells per generated project, judged through "
    "`reuse lint --json` files[].copyrights / spdx_expressions incl. source and source_type; projects rotate over 10 directory-name pairs (incl. names that "
    "sort before '.'), 6 file types (text, uncommentable-but-read types such as .json / .svg / .csv, code, unknown) and 4 root spellings (default, --root ., "
    "--root ./, top of a Git repository).  Cells the statement does not determine (tables above an "
    "override, override without information) are only weakly checked.  Non-trivial = >= 2 sources present; distinct by cell."
)
ASSUMPTIONS = [
    "vlib/ref/attribution.py states the precedence rules of the property",
    "a REUSE.toml without a matching table is equivalent to an absent REUSE.toml for that file",
]

OWN = ["none", "cop", "lic", "both", "unparseable", "binary"]
DOTLIC = ["absent", "empty", "cop", "lic", "both"]
PRECS = ["closest", "aggregate", "override"]
INFOS = ["none", "cop", "lic", "both"]
# level options: ("none",) | ("one", prec, info) | ("two", prec, info)
LEVEL_OPTS = [("none",)] + [("one", p, i) for p in PRECS for i in INFOS] + [("two", p, i) for p in PRECS for i in INFOS]
LEVEL_DIRS = ["", "d", "d/e"]
# directory names for the two nested levels, varied per project: names sorting before and after 'REUSE.toml'
DIR_NAMES = [("d", "e"), ("Docs", "e"), ("d", "3rdparty"), (".cfg", "A"), ("src", "Zeta"), ("REUSE", "x"), ("(app)", "e"), ("+lib", "-old"), ("#x", "$y"), (" sp", "!z")]
# how the project root is spelled: the default (absolute working directory), `--root .`, or found as the top of a Git repository ('.')
# file types: plain text, types the tool cannot put a comment in (but still reads), code, unknown
EXTS = ["txt", "json", "txt", "svg", "py", "csv", "txt", "unknownext", "ipynb"]
ROOT_MODES = ["default", "dot", "git", "default", "dotslash"]


def toml_str(s):
    return "'" + s + "'"


def build_project(cells, dep5=False, dirs=("d", "e")):
    """cells: list of (k, own, dotlic, [opt0, opt1, opt2]) (or dep5 option
    ("none",)/("one",)/("two",) in slot 0).  Returns (files, expected) where
    expected[k] = (items, strict, allowed)."""
    files = {}
    tables = {0: [], 1: [], 2: []}
    dep5_paras = []
    expected = {}
    LEVEL_DIRS = ["", dirs[0], f"{dirs[0]}/{dirs[1]}"]  # noqa: N806
    for k, own, dotlic, opts in cells:
        ext = EXTS[k % len(EXTS)]
        rel = f"{dirs[0]}/{dirs[1]}/f{k}.{ext}"
        own_info = None
        if own == "binary":
            files[rel] = b"\x00\x01\x02\xff\xfe\x00SPDX-License-Identifier: LicenseRef-bin%d\n\x00" % k
        else:
            lines = []
            if own in ("cop", "both", "unparseable"):
                lines.append(f"SPDX-FileCopyrightText: 2020 own{k}")
            if own in ("lic", "both"):
                lines.append(f"SPDX-License-Identifier: LicenseRef-own{k}")
            if own == "unparseable":
                lines.append("SPDX-License-Identifier: LicenseRef-x AND")
            files[rel] = "\n".join(lines + ["body"]) + "\n"
            if own in ("cop", "lic", "both"):
                own_info = {"cop": [f"SPDX-FileCopyrightText: 2020 own{k}"] if own in ("cop", "both") else [],
                            "lic": [f"LicenseRef-own{k}"] if own in ("lic", "both") else [],
                            "source": rel, "stype": "file-header"}
        if dotlic != "absent":
            lines = []
            if dotlic in ("cop", "both"):
                lines.append(f"SPDX-FileCopyrightText: 2021 dl{k}")
            if dotlic in ("lic", "both"):
                lines.append(f"SPDX-License-Identifier: LicenseRef-dl{k}")
            files[rel + ".license"] = ("\n".join(lines) + "\n") if lines else ""
            own_info = None
            if dotlic != "empty":
                own_info = {"cop": [f"SPDX-FileCopyrightText: 2021 dl{k}"] if dotlic in ("cop", "both") else [],
                            "lic": [f"LicenseRef-dl{k}"] if dotlic in ("lic", "both") else [],
                            "source": rel + ".license", "stype": "dot-license"}
        chain = []
        if dep5:
            opt = opts[0]
            if opt[0] == "none":
                chain = [None]
            else:
                if opt[0] == "two":
                    # an earlier paragraph that must lose
                    dep5_paras.append((rel, f"2001 loser{k}", f"LicenseRef-loser{k}"))
                dep5_paras.append((rel, f"2002 dep{k}", f"LicenseRef-dep{k}"))
                chain = [{"prec": "aggregate", "cop": [f"2002 dep{k}"], "lic": [f"LicenseRef-dep{k}"], "source": ".reuse/dep5", "stype": "dep5"}]
        else:
            for lvl, opt in enumerate(opts):
                if opt is None or opt[0] == "none":
                    chain.append(None)
                    continue
                _kind, prec, info = opt
                sub = rel[len(LEVEL_DIRS[lvl]) + 1:] if LEVEL_DIRS[lvl] else rel
                src = (LEVEL_DIRS[lvl] + "/" if LEVEL_DIRS[lvl] else "") + "REUSE.toml"
                win_path = sub
                if opt[0] == "two":
                    # earlier table with the opposite of everything; it must lose.
                    # Shapes: exact/exact, exact then glob, glob then exact.
                    lprec = "override" if prec != "override" else "aggregate"
                    glob = sub[: -len(ext)] + "*"
                    lose_path = sub
                    if k % 3 == 1:
                        win_path = glob
                    elif k % 3 == 2:
                        lose_path = glob
                    tables[lvl].append((lose_path, lprec, [f"2001 loser{k}L{lvl}"], [f"LicenseRef-loser{k}L{lvl}"]))
                cop = [f"2002 t{k}L{lvl}"] if info in ("cop", "both") else []
                lic = [f"LicenseRef-t{k}L{lvl}"] if info in ("lic", "both") else []
                tables[lvl].append((win_path, prec, cop, lic))
                chain.append({"prec": prec, "cop": cop, "lic": lic, "source": src, "stype": "reuse-toml"})
        expected[k] = (rel,) + A.attribute(own_info, chain)
    if not dep5:
        # groups of files sharing ONE table (glob), so that handling one file
        # must not change what the table gives to the next
        for g, prec in (("s", "closest"), ("t", "aggregate")):
            cop, lic = [f"2003 shared-{g}"], [f"LicenseRef-shared-{g}"]
            tables[0].append((f"{g}/**", prec, cop, lic))
            lvl = {"prec": prec, "cop": cop, "lic": lic, "source": "REUSE.toml", "stype": "reuse-toml"}
            for name, own in (("a", "cop"), ("b", "none"), ("c", "lic"), ("d", "both"), ("e", "cop"), ("f", "none")):
                rel = f"{g}/{name}.txt"
                lines = []
                if own in ("cop", "both"):
                    lines.append(f"SPDX-FileCopyrightText: 2020 own-{g}{name}")
                if own in ("lic", "both"):
                    lines.append(f"SPDX-License-Identifier: LicenseRef-own-{g}{name}")
                files[rel] = "\n".join(lines + ["body"]) + "\n"
                oi = None
                if own != "none":
                    oi = {"cop": [f"SPDX-FileCopyrightText: 2020 own-{g}{name}"] if own in ("cop", "both") else [],
                          "lic": [f"LicenseRef-own-{g}{name}"] if own in ("lic", "both") else [], "source": rel, "stype": "file-header"}
                expected[f"{g}/{name}"] = (rel,) + A.attribute(oi, [lvl])
    if not dep5:
        # one root table shared by files that also have a nearer REUSE.toml supplying only one half: what the nearer
        # file supersedes for one file must still be there for the next one
        cop, lic = ["2004 shared-u"], ["LicenseRef-shared-u"]
        tables[0].append(("u/**", "closest", cop, lic))
        outer = {"prec": "closest", "cop": cop, "lic": lic, "source": "REUSE.toml", "stype": "reuse-toml"}
        inner = {"in1": {"prec": "closest", "cop": ["2005 inner-one"], "lic": [], "source": "u/in1/REUSE.toml", "stype": "reuse-toml"},
                 "in2": {"prec": "closest", "cop": [], "lic": ["LicenseRef-inner-two"], "source": "u/in2/REUSE.toml", "stype": "reuse-toml"}}
        files["u/in1/REUSE.toml"] = "version = 1\n\n[[annotations]]\npath = '**'\nprecedence = 'closest'\nSPDX-FileCopyrightText = '2005 inner-one'\n"
        files["u/in2/REUSE.toml"] = "version = 1\n\n[[annotations]]\npath = '**'\nprecedence = 'closest'\nSPDX-License-Identifier = 'LicenseRef-inner-two'\n"
        # (u/in1x/, u/in1.txt, u/in12/: names that merely BEGIN like the directory of a nested REUSE.toml are not below it)
        for rel, chain in (("u/a0.txt", [outer]), ("u/in1/f.txt", [outer, inner["in1"]]), ("u/in2/f.txt", [outer, inner["in2"]]), ("u/m.txt", [outer]),
                           ("u/in1/g.txt", [outer, inner["in1"]]), ("u/zz.txt", [outer]), ("u/zz/last.txt", [outer]),
                           ("u/in1x/h.txt", [outer]), ("u/in1.txt", [outer]), ("u/in12/deep/k.txt", [outer]), ("u/in2-old/f.txt", [outer])):
            files[rel] = "body\n"
            expected["u:" + rel] = (rel,) + A.attribute(None, chain)
    if not dep5:
        # one REUSE.toml stating the same path twice, with a narrower table in between: the LAST matching table applies, also below the narrower one
        for n_, (pth, tag) in enumerate((("w/**", "first"), ("w/v/**", "narrow"), ("w-unrelated/**", "other"), ("w/**", "last"))):
            tables[0].append((pth, "closest", [f"2007 w-{tag}"], [f"LicenseRef-w-{tag}"]))
        last = {"prec": "closest", "cop": ["2007 w-last"], "lic": ["LicenseRef-w-last"], "source": "REUSE.toml", "stype": "reuse-toml"}
        for rel in ("w/a.txt", "w/v/b.txt", "w/v/deep/c.txt"):
            files[rel] = "body\n"
            expected["w:" + rel] = (rel,) + A.attribute(None, [last])
    if not dep5:
        # a nearer REUSE.toml whose table states an EMPTY copyright string (and nothing else / a licence): it provides no copyright,
        # so the outer closest table still supplies it
        cop, lic = ["2006 shared-v"], ["LicenseRef-shared-v"]
        tables[0].append(("v/**", "closest", cop, lic))
        outer = {"prec": "closest", "cop": cop, "lic": lic, "source": "REUSE.toml", "stype": "reuse-toml"}
        files["v/e1/REUSE.toml"] = "version = 1\n\n[[annotations]]\npath = '**'\nprecedence = 'closest'\nSPDX-FileCopyrightText = ''\n"
        files["v/e2/REUSE.toml"] = "version = 1\n\n[[annotations]]\npath = '**'\nprecedence = 'closest'\nSPDX-FileCopyrightText = ['', '  ']\nSPDX-License-Identifier = 'LicenseRef-inner-v'\n"
        inner2 = {"prec": "closest", "cop": [], "lic": ["LicenseRef-inner-v"], "source": "v/e2/REUSE.toml", "stype": "reuse-toml"}
        for rel, chain in (("v/a.txt", [outer]), ("v/e1/f.txt", [outer]), ("v/e2/f.txt", [outer, inner2])):
            files[rel] = "body\n"
            expected["v:" + rel] = (rel,) + A.attribute(None, chain)
    if dep5:
        out = ["Format: https://www.debian.org/doc/packaging-manuals/copyright-format/1.0/", "Upstream-Name: x", ""]
        for path, cop, lic in dep5_paras:
            out += [f"Files: {path}", f"Copyright: {cop}", f"License: {lic}", ""]
        files[".reuse/dep5"] = "\n".join(out)
    else:
        for lvl, tabs in tables.items():
            if not tabs:
                continue
            out = ["version = 1", ""]
            for sub, prec, cop, lic in tabs:
                out.append("[[annotations]]")
                out.append(f"path = {toml_str(sub)}")
                out.append(f"precedence = {toml_str(prec)}")
                if cop:
                    out.append(f"SPDX-FileCopyrightText = {toml_str(cop[0])}")
                if lic:
                    out.append(f"SPDX-License-Identifier = {toml_str(lic[0])}")
                out.append("")
            files[(LEVEL_DIRS[lvl] + "/" if LEVEL_DIRS[lvl] else "") + "REUSE.toml"] = "\n".join(out)
    return files, expected


def observed_items(entry):
    out = set()
    for c in entry["copyrights"]:
        out.add(("cop", c["value"], c["source"], c["source_type"]))
    for e in entry["spdx_expressions"]:
        out.add(("lic", e["value"], e["source"], e["source_type"]))
    return out


def run_project(ctx, cells, dep5=False, mp=False, dirs=("d", "e"), root_mode="default"):
    files, expected = build_project(cells, dep5, dirs)
    root = ctx.fresh_dir()
    try:
        tree.write_tree(root, files)
        if root_mode == "git":
            tree.git_init(root)
        if root_mode == "outside":
            # started somewhere else, the root given absolutely (a worker that opens a path relative to ITS cwd finds nothing)
            elsewhere = ctx.fresh_dir("elsewhere")
            res, data = tree.lint_json(root, mp=mp, extra=("--root", str(root)), cwd=elsewhere)
            data_paths = None
        else:
            res, data = tree.lint_json(root, mp=mp, extra={"dot": ("--root", "."), "dotslash": ("--root", "./")}.get(root_mode, ()))
        cdesc = {"cells": [[k, own, dl, [list(o) if o else None for o in opts]] for k, own, dl, opts in cells], "dep5": dep5, "dirs": list(dirs), "root_mode": root_mode}
        if data is None:
            ctx.fail(cdesc, f"lint --json failed: {res.brief()}")
        import os as _os

        by_path = {(_os.path.relpath(f["path"], root) if _os.path.isabs(f["path"]) else f["path"]): f for f in data["files"]}
        for key, (rel, exp, strict, allowed) in expected.items():
            if isinstance(key, int):
                continue
            ent = by_path.get(rel)
            ctx.count(("shared", key), nontrivial=True, labels=["shared-table-group"])
            if ent is None or observed_items(ent) != exp:
                ctx.fail(cdesc, f"{rel} (one of several files matched by one shared table): reported {sorted(observed_items(ent)) if ent else None}, expected {sorted(exp)}")
        for k, own, dotlic, opts in cells:
            rel, exp, strict, allowed = expected[k]
            cell = {"cells": [[k, own, dotlic, [list(o) if o else None for o in opts]]], "dep5": dep5, "dirs": list(dirs), "root_mode": root_mode}
            nsources = (own in ("cop", "lic", "both")) + (dotlic not in ("absent",)) + sum(1 for o in opts if o and o[0] != "none")
            ctx.count(("cell", own, dotlic, tuple(opts), dep5), nontrivial=nsources >= 2,
                      labels=[f"own:{own}", f"dotlic:{dotlic}", "strict" if strict else "weak", f"dirs:{dirs[0]}/{dirs[1]}", f"root:{root_mode}", "dep5" if dep5 else f"levels:{sum(1 for o in opts if o and o[0] != 'none')}"],
                      sample={"file": rel, "own": own, "dotlicense": dotlic, "chain": [list(o) if o else None for o in opts], "dep5": dep5,
                              "expected": sorted(map(list, exp)), "strict": strict})
            ent = by_path.get(rel)
            if ent is None:
                ctx.fail(cell, f"{rel} is not in lint --json files[]")
            got = observed_items(ent)
            if strict:
                if got != exp:
                    ctx.fail(cell, f"{rel}: reported {sorted(got)}, expected {sorted(exp)} (own={own}, .license={dotlic}, chain={opts})")
            else:
                if not exp <= got or not got <= allowed:
                    ctx.fail(cell, f"{rel}: reported {sorted(got)}; must contain {sorted(exp)} and stay within {sorted(allowed)} (own={own}, .license={dotlic}, chain={opts})")
    finally:
        tree.rmtree(root)


CONFLICT_PLACES = ("REUSE.toml", "vendor/lib/REUSE.toml", "a/b/c/REUSE.toml")


def check_conflict(ctx, where):
    root = ctx.fresh_dir()
    try:
        d = where.rsplit("/", 1)[0] + "/" if "/" in where else ""
        tree.write_tree(root, {"a.txt": "x\n", d + "code.c": "int x;\n",
                               where: 'version = 1\n\n[[annotations]]\npath = "**"\nprecedence = "override"\nSPDX-FileCopyrightText = "2020 Toml"\nSPDX-License-Identifier = "ISC"\n',
                               ".reuse/dep5": "Format: https://www.debian.org/doc/packaging-manuals/copyright-format/1.0/\n\nFiles: *\nCopyright: x\nLicense: MIT\n"})
        res, _ = tree.lint_json(root)
        ctx.count({"conflict": where}, labels=["dep5+toml-conflict"])
        if res.crash is not None or res.code != 2:
            ctx.fail({"conflict": where}, f".reuse/dep5 together with {where} must be a usage error (exit 2): {res.brief()}")
    finally:
        tree.rmtree(root)


def replay(ctx, case):
    if "conflict" in case:
        return check_conflict(ctx, case["conflict"] if isinstance(case["conflict"], str) else "REUSE.toml")
    cells = [(k, own, dl, [tuple(o) if o else None for o in opts]) for k, own, dl, opts in case["cells"]]
    run_project(ctx, cells, dep5=case.get("dep5", False), dirs=tuple(case.get("dirs", ("d", "e"))), root_mode=case.get("root_mode", "default"))


def batches(it, n):
    it = iter(it)
    while True:
        b = list(itertools.islice(it, n))
        if not b:
            return
        yield b


def all_cells(ctx):
    """Yield (variant, own, dotlic, opts) for the enumerated sub-spaces."""
    none = ("none",)
    # two-level cells in both placements
    for own, dl in itertools.product(OWN, DOTLIC):
        for a, b in itertools.product(LEVEL_OPTS, LEVEL_OPTS):
            yield ("2a", own, dl, [a, none, b])
            if a != none and b != none:
                yield ("2b", own, dl, [none, a, b])
                yield ("2c", own, dl, [a, b, none])
    # three-level cells
    for own, dl in itertools.product(OWN, DOTLIC):
        for a, b, c in itertools.product(LEVEL_OPTS[1:], LEVEL_OPTS[1:], LEVEL_OPTS[1:]):
            yield ("3", own, dl, [a, b, c])


def run(ctx):
    quick = ctx.tier == "quick"
    per_project = 150
    idx = 0
    mine = []
    for variant, own, dl, opts in all_cells(ctx):
        idx += 1
        if quick and variant != "2a":
            # quick tier: 1/64 of the three-level space and 1/4 of the other
            # two-level placements, spread by index and seed
            m = 64 if variant == "3" else 4
            if ((idx * 2654435761) >> 7) % m != ctx.seed % m:
                continue
        if idx % ctx.nshards != ctx.shard:
            continue
        mine.append((own, dl, opts))
    for n, batch in enumerate(batches(mine, per_project)):
        cells = [(k, own, dl, opts) for k, (own, dl, opts) in enumerate(batch)]
        run_project(ctx, cells, mp=(n % 7 == 3), dirs=DIR_NAMES[(n + ctx.shard + ctx.seed) % len(DIR_NAMES)], root_mode=ROOT_MODES[(n * 3 + ctx.shard + ctx.seed // 3) % len(ROOT_MODES)])
    # dep5 grid (small): every shard does its slice
    dep_cells = [(own, dl, [o]) for own in OWN for dl in DOTLIC for o in [("none",), ("one",), ("two",)]]
    dmine = [c for i, c in enumerate(dep_cells) if i % ctx.nshards == ctx.shard]
    if dmine:
        run_project(ctx, [(k, own, dl, opts) for k, (own, dl, opts) in enumerate(dmine)], dep5=True)
        # the same dep5 cells with the worker pool, started outside the project (the workers read dep5 again)
        run_project(ctx, [(k, own, dl, opts) for k, (own, dl, opts) in enumerate(dmine)], dep5=True, mp=True, root_mode="outside")
    ctx.extra["exhaustive"] = True
    ctx.extra["exhaustive_subspaces"] = [
        "all 30 x 25 x 25 two-level cells on (root, d/e); all with both tables present also on (d, d/e) and (root, d)",
        "all 30 x 3 dep5 cells",
    ] + (["all 30 x 24^3 three-level cells with a matching table at every level"] if not quick else ["1/64 of the 30 x 24^3 three-level cells (quick)"])
    if ctx.shard == 0:
        # dep5 and REUSE.toml together must be refused (exit 2), wherever the REUSE.toml lies
        for where in CONFLICT_PLACES:
            check_conflict(ctx, where)
