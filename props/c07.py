"""C07 — What annotate writes, the linter reads back.

(a) complete walk over the tool's extension and file-name tables with default
options; (b) Hypothesis over --style, --single-line/--multi-line, prefixes,
year options, .license options, templates (default, custom with prose, without
the contributor loop, pre-commented, information-dropping), binary and
uncommentable files, pre-existing headers in the file's own or a foreign
style.  Oracle (round trip): a run that exits 0 and says "Successfully changed
header" must make `reuse lint --json` (contributors: the tool's reader) yield
exactly before U requested; an information-dropping template must never be
reported as success.
"""

from hypothesis import strategies as st

from vlib import annot as AN
from vlib import cli, tree
from vlib.core import hyp_run
from vlib.gen import project as P
from vlib.gen import styles as S
from vlib.gen import values as V
from vlib.ref import covered as RC

ID = "C07"
LEVEL = "exploration"
RULE = (
    "(a) every key of the tool's extension and file-name tables (~325 file types) x body {empty, code} with default options; (b) sampled product: "
    "file type from the tables or unrecognised, --style (27 names) or detected, --single-line / --multi-line, ten --copyright-prefix values, 0..3 "
    "--year / --exclude-year / today's year, --force-dot-license / --fallback-dot-license / --skip-unrecognised, --no-replace, --merge-copyrights, a holder / LicenseRef- whose tail mirrors the comment marker of its line, templates {default, prose, "
    "without contributor loop, pre-commented in the file's style, dropping licences / copyright / both}, binary files (not UTF-8 | control characters that are valid UTF-8), 0..3 holders, 0..2 expressions, "
    "0..2 contributors, pre-existing header in own style / foreign style / .license, (optionally quoting a notice inside an ignore block of the same comment), or a leading comment block that is one ignore block.  Oracle: success => read-back == before U requested (copyright, "
    "licences; contributors when the template renders them); dropping template => never success.  Non-trivial = success case not (python style, default "
    "options); distinct by case."
)
ASSUMPTIONS = [
    "file-type tables are read from reuse.comment as domain data (which names exist), styles are re-stated in vlib/gen/styles.py",
    "contributors never end in punctuation that a comment syntax could take for decoration (recorded finding of C02); holders may: the tool then has to refuse or round-trip",
    "--force-dot-license is not combined with a pre-existing in-file header (the sibling then shadows the file by design, C04)",
]

BODIES = ["", "code();\n", "\n\nline one\nline two\n", "#!/usr/bin/env python3\nprint('x')\n",
          # content that declares an encoding of its own (the linter reads UTF-8 whatever it says)
          "# -*- coding: latin-1 -*-\nprint('x')\n", '<?xml version="1.0" encoding="ISO-8859-1"?>\n<a/>\n']


@st.composite
def case(draw):
    from reuse.comment import EXTENSION_COMMENT_STYLE_MAP, FILENAME_COMMENT_STYLE_MAP

    kind = draw(st.sampled_from(["ext", "ext", "ext", "name", "unrecognised"]))
    if kind == "ext":
        name = "file" + draw(st.sampled_from(sorted(EXTENSION_COMMENT_STYLE_MAP)))
    elif kind == "name":
        name = draw(st.sampled_from(sorted(FILENAME_COMMENT_STYLE_MAP)))
    else:
        name = draw(st.sampled_from(["thing.xyz", "noext", "data.unknownext"]))
    if draw(st.booleans()):
        name = "src/" + name
    req = draw(AN.request())
    style_opt = draw(st.one_of(st.none(), st.none(), st.sampled_from(sorted(S.STYLES))))
    line = draw(st.sampled_from([None, None, None, "single", "multi"]))
    dot = draw(st.sampled_from([None, None, None, "force", "fallback", "skip"]))
    if dot == "skip" and style_opt:
        style_opt = None  # mutually exclusive
    template = draw(st.sampled_from([None, None, None, "prose", "nocontrib", "commented", "fixedline", "droplic", "dropcop", "dropboth", "cdroplic", "cdropcop", "cdropboth"]))
    binary = draw(st.integers(0, 9)) == 0
    existing = None
    if draw(st.integers(0, 2)) == 0:
        existing = {"cop": draw(st.lists(st.builds(V.notice, st.sampled_from(sorted(V.PREFIXES)), V.opt_year(), V.safe_holder()), max_size=2, unique=True)),
                    "lic": draw(st.lists(V.expression(1), max_size=2, unique=True)),
                    "con": draw(st.lists(V.safe_holder(), max_size=1)),
                    "where": draw(st.sampled_from(["own", "own", "foreign"]))}
        if not (existing["cop"] or existing["lic"]):
            existing = None
    plain = template in (None, "prose", "nocontrib") and line is None and dot is None and not binary
    return {"name": name, "req": req, "style": style_opt, "line": line, "dot": dot, "template": template, "binary": binary,
            "existing": existing, "body": draw(st.sampled_from(BODIES)), "no_replace": draw(st.integers(0, 5)) == 0,
            # a commentable file that already has a FILE.license companion; reaching the file through -r DIR; a second file in the same invocation
            "companion": draw(st.integers(0, 4)) == 0, "recursive": name.startswith("src/") and draw(st.integers(0, 2)) == 0,
            # ('same-notice': the second file already declares exactly the first requested notice, and nothing else of the request)
            "second": draw(st.sampled_from([None, None, "header", "plain", "same-notice"])) if plain else None,
            # a requested holder / LicenseRef- whose tail mirrors the comment marker of the line it will be written on; binary content that is valid UTF-8
            # the file starts with a comment block in its own style that holds nothing but an ignore block
            "ignored_top": draw(st.integers(0, 7)) == 0,
            # the existing header's comment block also quotes a notice inside an ignore block; --merge-copyrights
            "ignored_in_header": draw(st.integers(0, 3)) == 0, "merge": draw(st.integers(0, 3)) == 0,
            # the existing header names LicenseRef-acme, the request LicenseRef-ACME: two licences (identifiers are case-sensitive)
            "twin": draw(st.integers(0, 3)) == 0,
            # the file is ISO-8859-1, not UTF-8
            "latin1": draw(st.integers(0, 7)) == 0,
            "far": draw(st.integers(0, 5)) == 0,
            "mirror": draw(st.integers(0, 5)) == 0, "bincontent": draw(st.sampled_from(["nonutf8", "controls"]))}


def check(ctx, c, table_walk=False):
    name = c["name"]
    base = name.rsplit("/", 1)[-1]
    if RC.name_rule(base) or RC.is_cal_shl(base):
        ctx.excluded["table-key-is-not-a-covered-file-name"] += 1
        return
    fstyle = AN.style_of(base)  # python | ... | uncommentable | empty | None
    companion = bool(c.get("companion")) and not c["binary"]
    to_dotlicense = c["binary"] or fstyle == "uncommentable" or c["dot"] == "force" or (fstyle is None and c["dot"] == "fallback" and not c["style"]) or companion
    used_style = c["style"] or (fstyle if fstyle in S.STYLES else None)
    req = c["req"]
    if c.get("mirror") and used_style and not to_dotlicense:
        single, multi = S.STYLES[used_style]
        marker = single if single is not None and (c["line"] != "multi" or multi is None) else multi[1].strip()
        if marker and not any(ch.isalnum() for ch in marker):
            req = dict(req, holders=req["holders"] + ["Mirror Corp " + marker[::-1]])
            if set(marker) <= set("-."):
                req = dict(req, licences=req["licences"] + ["LicenseRef-vendor" + marker[::-1]])
    existing = c["existing"]
    if c.get("twin") and existing:
        existing = dict(existing, lic=list(existing["lic"]) + ["LicenseRef-acme"])
        req = dict(req, licences=[x for x in req["licences"] if x != "LicenseRef-ACME"] + ["LicenseRef-ACME"])
    root = ctx.fresh_dir()
    try:
        AN.install_templates(root, used_style)
        # ---- initial content
        if c["binary"]:
            content = b"\x00\x01\x02\xff\xfe\x00binary\x00" if c.get("bincontent") != "controls" else bytes(range(1, 9)) * 40 + b"\n"
            existing = None
        else:
            body = c["body"]
            if to_dotlicense and not body:
                body = "{}\n"  # the file itself stays as it is; an empty file is not a covered file
            content = body
            if existing and not to_dotlicense:
                hstyle = used_style if existing["where"] == "own" else ("cpp" if used_style != "cpp" and used_style != "cppsingle" else "python")
                if hstyle is None:
                    existing = None
                else:
                    if body.startswith("#!"):
                        body = "print('x')\n"
                    content = P.header_text(hstyle, existing["cop"], existing["lic"], existing["con"], body=body or "x\n")
                    if c.get("ignored_in_header") and existing["where"] == "own":
                        hl = list(existing["cop"]) + [f"SPDX-FileContributor: {x}" for x in existing["con"]] + [f"SPDX-License-Identifier: {x}" for x in existing["lic"]]
                        hl += ["REUSE-IgnoreStart", "SPDX-FileCopyrightText: 1999 Ignored Holder", "Copyright (C) 1998 Ignored Holder", "REUSE-IgnoreEnd"]
                        blk = S.wrap_single(hstyle, hl) if S.has_single(hstyle) else S.wrap_block(hstyle, hl)
                        content = "\n".join(blk) + "\n\n" + (body or "x\n")
                        ctx.label("existing:ignore-block-inside-header")
        if c.get("ignored_top") and not c["binary"] and not to_dotlicense and not existing and used_style:
            lines = ["REUSE-IgnoreStart", "SPDX-FileCopyrightText: 1999 Ignored Holder", "SPDX-License-Identifier: LicenseRef-ignored", "REUSE-IgnoreEnd"]
            variant = len(name) % 3
            if variant == 1:
                # a stray end marker first (prose that mentions it), then a block that is never closed
                lines = ["this text mentions REUSE-IgnoreEnd", "REUSE-IgnoreStart", "SPDX-FileCopyrightText: 1999 Ignored Holder", "SPDX-License-Identifier: LicenseRef-ignored"]

            def wrap(ls):
                return S.wrap_single(used_style, ls) if S.has_single(used_style) and (c["line"] != "multi" or not S.has_multi(used_style)) else S.wrap_block(used_style, ls)

            blk = wrap(lines)
            b = c["body"] if not c["body"].startswith("#!") else "print('x')\n"
            content = "\n".join(blk) + "\n" + (b or "code();\n")
            if variant == 2:
                # two closed ignore blocks in two comments, the second one further down: neither is a header
                content += "\n" + "\n".join(wrap(["REUSE-IgnoreStart", "Copyright (C) 1998 Ignored Holder", "REUSE-IgnoreEnd"])) + "\nmore_code();\n"
            ctx.label(f"existing:ignore-block-on-top:{('closed', 'stray-end-then-open', 'two-blocks')[variant]}")
        if (c.get("far") and isinstance(content, str) and not c["binary"] and not to_dotlicense and not existing and not c.get("ignored_top")
                and used_style and S.has_single(used_style) and not content.startswith(("#!", "<?xml", "# -*-"))):
            # a long file without header comment that spells the requested notices out, verbatim and on lines of their own, beyond the
            # first 4 KiB (usage text, an embedded sample): the linter does not read that far, the new header has to be written all the same
            far = sorted(AN.requested_notices(req)) + [f"SPDX-License-Identifier: {x}" for x in req["licences"]]
            content = "".join(f"value_{i} = {i}  # filler line {i}\n" for i in range(140)) + "".join("    " + ln + "\n" for ln in far) + "end = 1\n"
            ctx.label("content:requested-notices-spelled-out-beyond-4KiB")
        if c.get("latin1") and isinstance(content, str) and not c["binary"]:
            # a text file in a legacy encoding (not valid UTF-8, not sniffed as binary): annotate refuses it — or, if it ever writes, the result
            # still has to read back
            try:
                content = (content + "# caf\u00e9 au lait, na\u00efve r\u00e9sum\u00e9\n").encode("latin-1")
                ctx.label("content:latin-1")
            except UnicodeEncodeError:
                pass
        files = {name: content}
        if existing and to_dotlicense:
            files[name + ".license"] = P.header_text("none", existing["cop"], existing["lic"], existing["con"], body="")
        elif companion:
            files[name + ".license"] = "Notes about this file.\n"
        second = c.get("second")
        sname = ("src/" if name.startswith("src/") else "") + "second_file.py"
        second_existing = {"cop": {"SPDX-FileCopyrightText: 2011 Second Holder"}, "lic": {"ISC"}} if second == "header" else {"cop": set(), "lic": set()}
        if second == "same-notice":
            first_notice = sorted(AN.requested_notices(req))[:1]
            second_existing = {"cop": set(first_notice), "lic": {"ISC"}} if first_notice else {"cop": set(), "lic": set()}
        if second:
            files[sname] = P.header_text("python", sorted(second_existing["cop"]), sorted(second_existing["lic"])) if second_existing["cop"] or second_existing["lic"] else "print('second')\n"
        tree.write_tree(root, files)
        before_snap = AN.snapshot(root)
        # ---- command line
        args = ["annotate", *AN.request_args(req)]
        if c["style"]:
            args += ["--style", c["style"]]
        if c["line"]:
            args.append(f"--{c['line']}-line")
        if c["dot"]:
            args.append({"force": "--force-dot-license", "fallback": "--fallback-dot-license", "skip": "--skip-unrecognised"}[c["dot"]])
        tname = None
        if c["template"] == "commented":
            # (the comment markers of jinja / handlebars are Jinja2 syntax themselves: no literal pre-commented template)
            if used_style and used_style not in ("jinja", "handlebars"):
                tname = f"precommented-{used_style}"
        elif c["template"]:
            tname = c["template"]
        if tname:
            args += ["--template", tname]
        if c["no_replace"]:
            args.append("--no-replace")
        if c.get("merge"):
            args.append("--merge-copyrights")
        recursive = bool(c.get("recursive")) and name.startswith("src/")
        if recursive:
            args += ["-r", "src"]
            if second and not sname.startswith("src/"):
                args.append(sname)
        else:
            # the file that already has a header comes first: what it declares must not leak into the next one
            args += ([sname, name] if second else [name])
        res = cli.run(args, root)
        def changed(path):
            # the message names the path as given, or absolute when the file was reached through -r
            pre = "Successfully changed header of "
            return any(ln.startswith(pre) and (ln[len(pre):] in (path, path + ".license") or ln[len(pre):].endswith(("/" + path, "/" + path + ".license")))
                       for ln in res.out.splitlines())

        success = res.crash is None and res.code == 0 and changed(name)
        if second and res.crash is None and res.code == 0:
            s_cop, s_lic, _s_con, _r = AN.read_back(root, sname)
            want_s_cop = set(second_existing["cop"]) | AN.requested_notices(req)
            want_s_lic = {AN.norm_expr(x) for x in second_existing["lic"]} | {AN.norm_expr(x) for x in req["licences"]}
            if c["style"] and c["style"] != "python" and second == "header":
                pass  # forced foreign style: still a union, checked below the same way
            if c.get("merge") and s_cop is not None:
                hs = lambda lines: {(V.parse_notice(x) or (None, None, x))[2] for x in lines}  # noqa: E731
                if hs(want_s_cop) <= hs(s_cop):
                    s_cop = want_s_cop  # re-rendered by the merge: holders are all there
            if s_cop is not None and changed(sname) and (s_cop != want_s_cop or s_lic != want_s_lic):
                ctx.fail(c, f"second file of the invocation ({sname}): lint reads copyrights={sorted(s_cop)} licences={sorted(map(str, s_lic))}; expected {sorted(want_s_cop)} / {sorted(map(str, want_s_lic))}")
        labels = [f"filestyle:{fstyle}", f"forced-style:{bool(c['style'])}", f"companion:{companion}", f"recursive:{recursive}", f"second:{second}", f"line:{c['line']}", f"dot:{c['dot']}", f"template:{c['template'] if tname else None}",
                  f"binary:{c['binary'] and c.get('bincontent', 'nonutf8')}", f"mirror:{req is not c['req']}", f"merge:{bool(c.get('merge'))}", f"existing:{existing['where'] if existing else None}", f"exit:{res.code}", f"success:{success}",
                  f"prefix:{req['prefix']}", f"years:{len(req['years'])}{'x' if req['exclude_year'] else ''}"]
        nontrivial = success and not (used_style == "python" and not any([c["style"], c["line"], c["dot"], tname, req["prefix"], existing, c["binary"]]))
        ctx.count(c, nontrivial=nontrivial, labels=labels if not table_walk else ["table-walk", f"filestyle:{fstyle}", f"success:{success}"],
                  sample={"name": name, "args": args, "exit": res.code, "stdout": res.out[:200]})
        if res.crash is not None:
            ctx.label("crash-left-to-C16")
            return
        want_cop = set(existing["cop"]) if existing else set()
        want_lic = {AN.norm_expr(x) for x in existing["lic"]} if existing else set()
        want_con = set(existing["con"]) if existing else set()
        want_cop |= AN.requested_notices(req)
        want_lic |= {AN.norm_expr(x) for x in req["licences"]}
        want_con |= set(req["contributors"])
        if tname in AN.DROPPING:
            # what the new header has to carry: the request, plus the old header's
            # information when that header is found and replaced
            merged = existing and not c["no_replace"] and ((to_dotlicense and not c["style"]) or (not to_dotlicense and existing["where"] == "own" and (not c["style"] or c["style"] == fstyle)))
            carry_lic = {AN.norm_expr(x) for x in req["licences"]} | (want_lic if merged else set())
            carry_cop = AN.requested_notices(req) | (want_cop if merged else set())
            drops_lic = tname in ("droplic", "dropboth", "cdroplic", "cdropboth") and carry_lic
            drops_cop = tname in ("dropcop", "dropboth", "cdropcop", "cdropboth") and carry_cop
            if (drops_lic or drops_cop) and success:
                ctx.fail(c, f"template {tname} cannot carry {'licences ' if drops_lic else ''}{'copyright ' if drops_cop else ''}yet annotate reported success: {res.out[:300]!r}")
            if success is False:
                return
        if not success:
            if table_walk and fstyle is not None:
                ctx.fail(c, f"default annotate on recognised file type {name!r} did not succeed: {res.brief()}")
            return
        cop, lic, con, lres = AN.read_back(root, name)
        if cop is None:
            ctx.fail(c, f"after a successful annotate, lint --json does not list {name}: {lres.brief()}")
        if any("Ignored Holder" in x for x in cop):
            ctx.fail(c, f"a notice quoted inside an ignore block of the old header is read back after annotate: {sorted(cop)}")
        if c.get("merge"):
            # merged notices are re-rendered (C09 / C20 say how): holders must all be there, lines are not compared
            holders = lambda lines: {(V.parse_notice(x) or (None, None, x))[2] for x in lines}  # noqa: E731
            if not holders(want_cop) <= holders(cop):
                ctx.fail(c, f"annotate --merge-copyrights reported success but holders {sorted(holders(want_cop) - holders(cop))} are not read back: {sorted(cop)}")
            cop = want_cop
        if cop != want_cop or lic != want_lic:
            ctx.fail(c, f"annotate reported success but lint reads copyrights={sorted(cop)} licences={sorted(map(str, lic))}; expected copyrights={sorted(want_cop)} licences={sorted(map(str, want_lic))}")
        renders_contributors = tname not in ("nocontrib",) and tname not in AN.DROPPING
        if renders_contributors and con is not None and con != want_con:
            ctx.fail(c, f"annotate reported success but contributors read back as {sorted(con)}; expected {sorted(want_con)}")
    finally:
        tree.rmtree(root)


def replay(ctx, c):
    check(ctx, c, table_walk=c.get("table_walk", False))


def run(ctx):
    from reuse.comment import EXTENSION_COMMENT_STYLE_MAP, FILENAME_COMMENT_STYLE_MAP

    q = ctx.tier == "quick"
    names = ["file" + e for e in sorted(EXTENSION_COMMENT_STYLE_MAP)] + sorted(FILENAME_COMMENT_STYLE_MAP)
    variants = [(b, ln) for b in ("", "code();\n") for ln in ([None] if q else [None, "single", "multi"])]
    i = 0
    for n in names:
        for body, ln in variants:
            i += 1
            if i % ctx.nshards != ctx.shard:
                continue
            c = {"name": n, "req": {"holders": ["Jane Doe <jane@example.org>"], "licences": ["GPL-3.0-or-later"], "contributors": ["Zoë Müller"],
                                    "prefix": None, "years": ["2020"], "exclude_year": False},
                 "style": None, "line": ln, "dot": None, "template": None, "binary": False, "existing": None, "body": body, "no_replace": False, "table_walk": ln is None}
            check(ctx, c, table_walk=ln is None)
    ctx.extra["exhaustive_subspaces"] = [f"all {len(names)} keys of the extension and file-name tables x {len(variants)} variants with default options"]
    hyp_run(ctx, "options", case(), lambda c: check(ctx, c), 700 if q else 6000)
