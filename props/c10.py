"""C10 — Re-running annotate with the same arguments changes nothing.

Every file type of the tool's tables (complete walk) and every --style x
{default, --multi-line, --single-line} x .license options x prefix / year
options x well-formed templates x bodies free of REUSE tags.  Oracle
(metamorphic): bytes after run 1 == bytes after run 2 == ... == run N, and each
requested tag line occurs exactly once.
"""

from hypothesis import strategies as st

from vlib import annot as AN
from vlib import cli, tree
from vlib.core import hyp_run
from vlib.gen import styles as S
from vlib.gen import values as V
from vlib.ref import covered as RC

ID = "C10"
LEVEL = "exploration"
RULE = (
    "(a) every key of the extension and file-name tables x {default, --multi-line, --single-line where the style supports it}; (b) every --style name x "
    "the same line modes on an unrecognised file; (c) Hypothesis: file type x --style x line mode x {none, --force-dot-license, --fallback-dot-license} x "
    "prefix x year options x template {default, prose, without contributors, pre-commented, with a fixed notice of its own} x body {empty, code, comment lines in the same style, "
    "shebang / first-line declaration, blank-line runs} free of REUSE tags x {ordinary request, request that makes the header longer than 4 KiB} x {no merge, --merge-copyrights, with two statements of one holder, with a hand-written year range} x N in 2..4 runs; (d) requests with ties (names differing in letter case only, one holder under two equally frequent prefixes with --merge-copyrights): run 1 in-process, later runs in fresh interpreters under other PYTHONHASHSEED values.  Oracle: tree bytes identical after run 1 and every later "
    "run; every requested notice / licence / contributor line occurs once in the target file.  Non-trivial = not (python style, default options, empty "
    "body); distinct by case."
)
ASSUMPTIONS = ["bodies contain no REUSE tags of their own; templates render one contiguous comment block"]


def same_style_comment(style):
    single, multi = S.STYLES[style]
    if single is not None:
        return f"{single} an ordinary comment\n{single} of two lines\n"
    start, mid, end = multi
    return f"{start}\n{mid + ' ' if mid else ''}an ordinary comment\n{end}\n"


SHEBANGS = {"python": "#!/usr/bin/env python3\n", "julia": "#!/usr/bin/env julia\n", "html": '<?xml version="1.0"?>\n', "cpp": "<?php\n", "tex": "% !TEX root = x\n",
            "haskell": "cabal-version: 3.0\n", "cppsingle": "#!/usr/bin/env gleam\n", "bibtex": "% !BIB program = biber\n"}


@st.composite
def case(draw):
    from reuse.comment import EXTENSION_COMMENT_STYLE_MAP, FILENAME_COMMENT_STYLE_MAP

    kind = draw(st.sampled_from(["ext", "ext", "name", "unrecognised"]))
    if kind == "ext":
        name = "file" + draw(st.sampled_from(sorted(EXTENSION_COMMENT_STYLE_MAP)))
    elif kind == "name":
        name = draw(st.sampled_from(sorted(FILENAME_COMMENT_STYLE_MAP)))
    else:
        name = "thing.xyz"
    style = draw(st.one_of(st.none(), st.sampled_from(sorted(S.STYLES)))) if kind != "unrecognised" else draw(st.sampled_from(sorted(S.STYLES)))
    return {"name": name, "style": style, "line": draw(st.sampled_from([None, None, "single", "multi"])),
            "dot": draw(st.sampled_from([None, None, None, "force", "fallback"])),
            "template": draw(st.sampled_from([None, None, "prose", "nocontrib", "commented", "fixedline"])),
            "req": draw(AN.request()), "body": draw(st.sampled_from(["empty", "code", "comment", "shebang", "blanks", "shebang+comment", "no-final-newline"])),
            "runs": draw(st.integers(2, 4)), "eol": draw(st.sampled_from(["\n", "\n", "\r\n", "\r"])),
            # a header of more than 4 KiB (the size of the window the linter reads): 60 more holders and 60 more contributors
            "many": draw(st.integers(0, 7)) == 0,
            # --merge-copyrights, sometimes with statements of one holder that differ in the year only, or a hand-written year range
            "merge": draw(st.sampled_from([None, None, None, "plain", "same-holder", "year-range"]))}


@st.composite
def hashseed_case(draw):
    """Requests whose rendering could depend on the order in which a set yields its items (ties): names that differ in letter case only,
    one holder under two prefixes with --merge-copyrights.  Run 1 in this process, the later runs in fresh interpreters with other hash seeds."""
    twins = [["ACME Corp", "Acme Corp"], ["jane doe", "Jane Doe", "JANE DOE"], ["Zoë Müller", "ZOË MÜLLER"]]
    holders = draw(st.sampled_from(twins))
    contributors = draw(st.sampled_from([[], ["Mary Major", "MARY MAJOR"], ["john roe", "John Roe"]]))
    merge = draw(st.sampled_from([None, None, "prefix-tie", "plain"]))
    style = draw(st.sampled_from(["python", "c", "html", "lisp"]))
    return {"holders": holders, "contributors": contributors, "merge": merge, "style": style,
            "hashseeds": draw(st.lists(st.integers(1, 4000), min_size=2, max_size=3, unique=True)), "dot": draw(st.sampled_from([None, None, "force"]))}


def check_hashseed(ctx, c):
    name = "file" + S.EXT_FOR_STYLE[c["style"]]
    root = ctx.fresh_dir()
    try:
        body = "code\n"
        if c["merge"] == "prefix-tie":
            # a hand-written notice under another prefix than the one requested, same holder and year: the two prefixes are equally frequent
            lines = [f"Copyright 2019 {c['holders'][0]}", "", "SPDX-License-Identifier: MIT"]
            body = "\n".join(S.wrap_single(c["style"], lines) if S.has_single(c["style"]) else S.wrap_block(c["style"], lines)) + "\n\ncode\n"
        tree.write_tree(root, {name: body.encode("utf-8")})
        args = ["annotate", "--license", "MIT", "--year", "2019"]
        for h in c["holders"] if c["merge"] != "prefix-tie" else c["holders"][:1]:
            args += ["--copyright", h]
        for x in c["contributors"]:
            args += ["--contributor", x]
        if c["merge"]:
            args.append("--merge-copyrights")
        if c["dot"] == "force" and c["merge"] != "prefix-tie":
            args.append("--force-dot-license")
        args.append(name)
        r1 = cli.run(args, root)
        if r1.crash is not None or r1.code != 0:
            ctx.fail(c, f"annotate failed: {r1.brief()}")
        snap1 = AN.snapshot(root)
        ctx.count(c, nontrivial=True, labels=["later-runs-under-other-hash-seeds", f"hashseed:merge={c['merge']}", f"hashseed:style={c['style']}"],
                  sample={"args": args, "hashseeds": c["hashseeds"]})
        for hs in c["hashseeds"]:
            r = cli.run_sub(args, root, hashseed=hs)
            if r.crash is not None or r.code != 0:
                ctx.fail(c, f"run under PYTHONHASHSEED={hs} failed: {r.brief()}")
            snap = AN.snapshot(root)
            if snap != snap1:
                diff = sorted(p for p in set(snap) | set(snap1) if snap.get(p) != snap1.get(p))
                ctx.fail(c, f"a run with identical arguments in a fresh interpreter (PYTHONHASHSEED={hs}) changed {diff}: after run 1 {snap1.get(diff[0])!r}, now {snap.get(diff[0])!r}")
    finally:
        tree.rmtree(root)


def check(ctx, c, walk=False):
    name = c["name"]
    base = name.rsplit("/", 1)[-1]
    if RC.name_rule(base) or RC.is_cal_shl(base):
        ctx.excluded["table-key-is-not-a-covered-file-name"] += 1
        return
    fstyle = AN.style_of(base)
    used_style = c["style"] or (fstyle if fstyle in S.STYLES else None)
    to_dot = fstyle == "uncommentable" or c["dot"] == "force" or (fstyle is None and c["dot"] == "fallback" and not c["style"])
    if c["line"] and used_style and not to_dot:
        if c["line"] == "single" and not S.has_single(used_style) or c["line"] == "multi" and not S.has_multi(used_style):
            ctx.excluded["line-mode-unsupported-by-style"] += 1
            return
    if c["template"] == "nocontrib" and not (c["req"]["holders"] or c["req"]["licences"]):
        ctx.excluded["template-renders-nothing-of-the-request"] += 1
        return
    if c.get("many"):
        c = dict(c, req=dict(c["req"], holders=c["req"]["holders"] + [f"Holder Number {i:02d} of the Long List" for i in range(60)],
                             contributors=c["req"]["contributors"] + [f"Contributor {i:02d} <c{i:02d}@example.org>" for i in range(60)]))
    if c.get("merge") == "same-holder":
        c = dict(c, req=dict(c["req"], holders=c["req"]["holders"] + ["Copyright 2019 Merged Holder", "Copyright 2021 Merged Holder"]))
    elif c.get("merge") == "year-range":
        c = dict(c, req=dict(c["req"], years=["2018-2020"], exclude_year=False, holders=c["req"]["holders"] or ["Jane Doe"]))
    body_style = used_style if used_style else "python"
    body = {"empty": "", "code": "first line of code\n\nsecond\n", "blanks": "\n\n\ncode after blanks\n\n\n",
            "comment": same_style_comment(body_style) + "code\n",
            "shebang": SHEBANGS.get(body_style, "") + "code\n",
            "shebang+comment": SHEBANGS.get(body_style, "") + same_style_comment(body_style) + "code\n",
            "no-final-newline": "code without final newline"}[c["body"]]
    body = body.replace("\n", c["eol"])
    if to_dot and not body:
        body = "{}" + c["eol"]
    root = ctx.fresh_dir()
    try:
        AN.install_templates(root, used_style)
        tree.write_tree(root, {name: body.encode("utf-8")})
        args = ["annotate", *AN.request_args(c["req"])]
        if c["req"]["exclude_year"] is False and not c["req"]["years"]:
            args += ["--year", "2021"]  # pin the year (no wall clock inside the oracle)
        if c["style"]:
            args += ["--style", c["style"]]
        if c["line"]:
            args.append(f"--{c['line']}-line")
        if c["dot"]:
            args.append({"force": "--force-dot-license", "fallback": "--fallback-dot-license"}[c["dot"]])
        if c.get("merge"):
            args.append("--merge-copyrights")
        tname = None
        if c["template"] == "commented":
            if used_style and used_style not in ("jinja", "handlebars") and not to_dot:
                tname = f"precommented-{used_style}"
        elif c["template"]:
            tname = c["template"]
        if tname:
            args += ["--template", tname]
        args.append(name)
        snaps = []
        outcomes = []
        for _ in range(c["runs"]):
            res = cli.run(args, root)
            outcomes.append(res)
            if res.crash is not None:
                ctx.label("crash-left-to-C16")
                return
            snaps.append(AN.snapshot(root))
        ok = all(r.code == 0 and "Successfully changed header" in r.out for r in outcomes)
        ctx.count(c, nontrivial=ok and not (used_style == "python" and not c["line"] and not c["dot"] and not tname and c["body"] == "empty"),
                  labels=(["table-walk"] if walk else []) + [f"style:{used_style}", f"line:{c['line']}", f"dot:{c['dot']}", f"template:{tname}", f"body:{c['body']}",
                                                             f"eol:{c['eol']!r}", f"runs:{c['runs']}", f"ok:{ok}", f"header>4KiB:{bool(c.get('many'))}", f"merge:{c.get('merge')}"],
                  sample={"name": name, "args": args, "body": c["body"], "runs": c["runs"]})
        if outcomes[0].code != 0 or "Successfully changed header" not in outcomes[0].out:
            if walk and fstyle is not None and not c["line"]:
                ctx.fail(c, f"default annotate on recognised file type {name!r} did not succeed: {outcomes[0].brief()}")
            return
        for k in range(1, len(snaps)):
            if outcomes[k].code != 0:
                # (e.g. --single-line is refused once FILE.license exists; the statement only asks for unchanged bytes)
                ctx.label("later-run-refused")
            if snaps[k] != snaps[0]:
                diff = sorted(p for p in set(snaps[0]) | set(snaps[k]) if snaps[0].get(p) != snaps[k].get(p))
                p0 = diff[0]
                ctx.fail(c, f"run {k + 1} with identical arguments changed {diff}: after run 1 {snaps[0].get(p0)!r}, after run {k + 1} {snaps[k].get(p0)!r}")
        target = name + ".license" if (name + ".license") in snaps[0] else name
        data = snaps[0][target]
        text = data.decode("utf-8", "replace") if isinstance(data, bytes) else ""
        req = c["req"]
        wanted = list(AN.requested_notices(dict(req, years=req["years"] or ([] if req["exclude_year"] else ["2021"]))))
        if c.get("merge"):
            wanted = []  # merged notices are re-rendered (C09 / C20 say how); here only the bytes matter
        wanted += [f"SPDX-FileContributor: {x}" for x in req["contributors"]] if tname != "nocontrib" else []
        for w in wanted:
            # count whole-line occurrences (a shorter notice may be a prefix of a longer one)
            n = sum(1 for ln in text.replace("\r\n", "\n").replace("\r", "\n").split("\n") if ln.rstrip().endswith(w) and w in ln)
            if n != 1:
                ctx.fail(c, f"{w!r} occurs {n} times in {target} after annotating (expected once):\n{text[:600]}")
    finally:
        tree.rmtree(root)


def replay(ctx, c):
    if "hashseeds" in c:
        return check_hashseed(ctx, c)
    check(ctx, c, walk=c.get("walk", False))


def run(ctx):
    from reuse.comment import EXTENSION_COMMENT_STYLE_MAP, FILENAME_COMMENT_STYLE_MAP

    q = ctx.tier == "quick"
    names = ["file" + e for e in sorted(EXTENSION_COMMENT_STYLE_MAP)] + sorted(FILENAME_COMMENT_STYLE_MAP)
    base_req = {"holders": ["Jane Doe"], "licences": ["MIT"], "contributors": ["John Roe"], "prefix": None, "years": ["2020"], "exclude_year": False}
    jobs = []
    for n in names:
        for ln in (None, "multi", "single"):
            for body in (("code",) if q else ("code", "empty", "comment")):
                jobs.append({"name": n, "style": None, "line": ln, "dot": None, "template": None, "req": base_req, "body": body, "runs": 2, "eol": "\n", "walk": True})
    for sname in sorted(S.STYLES):
        for ln in (None, "multi", "single"):
            for body in ("code", "empty", "comment", "shebang"):
                jobs.append({"name": "thing.xyz", "style": sname, "line": ln, "dot": None, "template": None, "req": base_req, "body": body, "runs": 3, "eol": "\n", "walk": True})
    for i, j in enumerate(jobs):
        if i % ctx.nshards == ctx.shard:
            check(ctx, j, walk=True)
    ctx.extra["exhaustive_subspaces"] = [f"{len(names)} table keys x 3 line modes", f"{len(S.STYLES)} --style names x 3 line modes x 4 bodies"]
    hyp_run(ctx, "options", case(), lambda c: check(ctx, c), 500 if q else 8000)
    # later runs in fresh interpreters under other string-hash seeds (a few: each costs an interpreter start)
    hyp_run(ctx, "hashseed", hashseed_case(), lambda c: check_hashseed(ctx, c), 6 if q else 120)
