"""C20 — Copyright notices are built and merged without losing holders or years.

Function level: make_copyright_line / merge_copyright_lines / the reader
(extract_reuse_info).  CLI level: annotate [--merge-copyrights] then lint --json.
Expected values come from the generated (prefix, year, holder) triples and an
independent notice reader (vlib.gen.values.parse_notice), never from the
tool's own regexes.
"""

from hypothesis import strategies as st

from vlib import tree, cli
from vlib.core import hyp_run
from vlib.gen import values as V
from vlib.gen import styles as S

ID = "C20"
LEVEL = "exploration"
RULE = (
    "Build: holder (grammar of names/organisations with punctuation, e-mail/URL suffixes, non-ASCII) x year form {none, YYYY, YYYY-YYYY, "
    "YYYY - YYYY} x each of the ten documented prefixes, read back bare and wrapped in five comment syntaxes; statements that already are "
    "notices must come back verbatim.  Merge: sets of 1..8 notices mixing prefixes, year forms and 1..3 holders; oracle: same holder set, one "
    "line per holder, year span covers [min,max] of all years stated for it (none stated => none), result parses with the tool's reader. "
    "CLI: annotate (--copyright-prefix, 0..3 --year / --exclude-year, --merge-copyrights over pre-existing headers) then lint --json. "
    "Non-trivial = (year present and prefix != spdx) or merge set with >= 2 notices of one holder; distinct by case content."
)
ASSUMPTIONS = [
    "prefix table and notice syntax taken from the reuse-annotate man page (vlib/gen/values.py)",
    "holders never start with a year or symbol and never end in a comment terminator (documented ambiguity, constructive exclusion)",
]

WRAPS = ["bare", "python", "cpp", "c-block", "html-inline", "ml-block"]


def wrap(kind, line):
    if kind == "bare":
        return line + "\n"
    if kind == "python":
        return "\n".join(S.wrap_single("python", [line])) + "\n"
    if kind == "cpp":
        return "\n".join(S.wrap_single("cpp", [line])) + "\ncode();\n"
    if kind == "c-block":
        return "\n".join(S.wrap_block("c", [line, "", "more text"])) + "\n"
    if kind == "html-inline":
        return S.wrap_inline("html", line) + "\n<p>x</p>\n"
    if kind == "ml-block":
        return "\n".join(S.wrap_block("ml", [line])) + "\n"
    raise ValueError(kind)


build_case = st.tuples(
    V.holder(markers=True), V.opt_year(), st.sampled_from(sorted(V.PREFIXES)), st.sampled_from(WRAPS),
    st.booleans(),  # already a notice?
    st.sampled_from(sorted(V.PREFIXES)),
)


def check_build(ctx, case):
    from reuse.copyright import make_copyright_line
    from reuse.extract import extract_reuse_info

    holder, year, prefix, wrapk, already, prefix2 = case
    cdict = {"holder": holder, "year": year, "prefix": prefix, "wrap": wrapk, "already": already, "prefix2": prefix2}
    if already:
        statement = V.notice(prefix2, year, holder)
        exp_prefix = V.PREFIXES[prefix2]
        if prefix2.startswith("spdx") and len(holder) % 3 == 0:
            # the snippet tag is a notice as well (with the same decorations)
            statement = statement.replace("SPDX-FileCopyrightText:", "SPDX-SnippetCopyrightText:", 1)
            exp_prefix = exp_prefix.replace("SPDX-FileCopyrightText:", "SPDX-SnippetCopyrightText:", 1)
        expected = statement  # kept verbatim
        exp_year = year
        line = make_copyright_line(statement, year="1999", copyright_prefix=prefix)
    else:
        expected = V.notice(prefix, year, holder)
        exp_prefix, exp_year = V.PREFIXES[prefix], year
        line = make_copyright_line(holder, year=year, copyright_prefix=prefix)
    ctx.count(cdict, nontrivial=bool(year and (prefix2 if already else prefix) != "spdx"),
              labels=[f"prefix:{prefix2 if already else prefix}", f"year:{'none' if not year else 'range' if '-' in year else 'single'}", f"wrap:{wrapk}", f"already:{already}"])
    if line != expected:
        ctx.fail(cdict, f"make_copyright_line gave {line!r}, expected {expected!r}")
    info = extract_reuse_info(wrap(wrapk, line))
    if info.copyright_lines != {expected}:
        ctx.fail(cdict, f"reader sees {sorted(info.copyright_lines)!r} in the wrapped notice, expected exactly {expected!r}")
    # the reader's own groups
    try:
        from reuse.extract import _COPYRIGHT_PATTERNS
    except ImportError:
        ctx.label("reader-groups-unavailable")
        return
    # the notice starts at the leftmost marker of the line (a holder may contain such a word itself)
    found = [m for m in (pat.search(line) for pat in _COPYRIGHT_PATTERNS) if m]
    for m in sorted(found, key=lambda m: m.start())[:1]:
        if True:
            g = m.groupdict()
            got = (g["prefix"], g["year"], g["statement"])
            if got != (exp_prefix, exp_year, holder):
                ctx.fail(cdict, f"reader groups (prefix, year, holder) = {got!r}, expected {(exp_prefix, exp_year, holder)!r}")
            break
    else:
        ctx.fail(cdict, f"no reader pattern recognises {line!r}")


@st.composite
def merge_case(draw):
    holders = draw(st.lists(V.safe_holder(markers=True), min_size=1, max_size=3, unique=True))
    n = draw(st.integers(1, 8))
    items = []
    for _ in range(n):
        items.append((draw(st.sampled_from(sorted(V.PREFIXES))), draw(V.opt_year()), draw(st.sampled_from(holders))))
    return items


def merge_expect(items):
    exp = {}
    for _p, y, h in items:
        lo_hi = exp.setdefault(h, None)
        if y:
            ys = [int(y[:4]), int(y[-4:])]
            if lo_hi is None:
                exp[h] = (min(ys), max(ys))
            else:
                exp[h] = (min(lo_hi[0], *ys), max(lo_hi[1], *ys))
    return exp


def judge_merged(ctx, cdict, out_lines, exp, what):
    seen = {}
    for line in out_lines:
        parsed = V.parse_notice(line)
        if parsed is None:
            ctx.fail(cdict, f"{what}: line {line!r} is not a notice")
        _p, yrs, h = parsed
        if h in seen:
            ctx.fail(cdict, f"{what}: holder {h!r} has more than one line: {sorted(out_lines)!r}")
        seen[h] = yrs
    if set(seen) != set(exp):
        ctx.fail(cdict, f"{what}: holders {sorted(seen)!r}, expected {sorted(exp)!r} (lines {sorted(out_lines)!r})")
    for h, want in exp.items():
        got = seen[h]
        if want is None:
            if got is not None:
                ctx.fail(cdict, f"{what}: holder {h!r} got years {got} although none was stated")
        elif got is None or got[0] > want[0] or got[1] < want[1]:
            ctx.fail(cdict, f"{what}: holder {h!r} has years {got}, must span {want}")


def check_merge(ctx, items):
    from reuse.copyright import merge_copyright_lines
    from reuse.extract import extract_reuse_info

    lines = {V.notice(p, y, h) for p, y, h in items}
    cdict = {"notices": sorted(lines)}
    exp = merge_expect(items)
    per_holder = {}
    for _p, _y, h in items:
        per_holder[h] = per_holder.get(h, 0) + 1
    ctx.count(cdict, nontrivial=len(lines) >= 2 and any(v >= 2 for v in per_holder.values()),
              labels=[f"merge:n={len(lines)}", f"merge:holders={len(exp)}"])
    out = merge_copyright_lines(set(lines))
    judge_merged(ctx, cdict, out, exp, "merge_copyright_lines")
    # every merged line must be readable by the tool as itself
    text = "\n".join("# " + l for l in sorted(out)) + "\n"
    back = extract_reuse_info(text).copyright_lines
    if back != set(out):
        ctx.fail(cdict, f"merged lines {sorted(out)!r} read back as {sorted(back)!r}")


@st.composite
def cli_case(draw):
    pool = draw(st.lists(V.safe_holder(markers=True), min_size=1, max_size=2, unique=True))
    existing = draw(st.lists(st.tuples(st.sampled_from(sorted(V.PREFIXES)), V.opt_year(), st.sampled_from(pool)), max_size=4))
    mode = draw(st.sampled_from(["new", "new", "same-holder", "repeat-line", "licence-only", "request-notices"]))
    years = draw(st.lists(st.integers(1980, 2030).map(str), max_size=3))
    exclude = draw(st.booleans()) if not years else False
    prefix = draw(st.one_of(st.none(), st.sampled_from(sorted(V.PREFIXES))))
    new_holders = draw(st.lists(V.safe_holder(markers=True), min_size=1, max_size=2, unique=True))
    if existing and mode == "same-holder":
        new_holders[0] = existing[0][2]
    elif existing and mode == "repeat-line":
        # the run states nothing new: same prefix, year and holder as an existing line
        p0, y0, h0 = existing[0]
        new_holders, prefix = [h0], p0
        if y0 and "-" not in y0:
            years, exclude = [y0], False
        elif y0:
            years, exclude = [y0[:4], y0[-4:]], False
            existing[0] = (p0, f"{y0[:4]} - {y0[-4:]}", h0)
        else:
            years, exclude = [], True
    elif mode == "licence-only":
        new_holders = []
    merge = draw(st.booleans()) if mode in ("new", "same-holder") else True
    style = draw(st.sampled_from(["python", "c", "html", "cpp"]))
    if mode == "request-notices":
        # the request itself carries several complete notices, some of them of one holder; no header yet; with and without --no-replace
        items = draw(st.lists(st.tuples(st.sampled_from(sorted(V.PREFIXES)), V.year(), st.sampled_from(pool)), min_size=2, max_size=4))
        return {"existing": [], "holders": [], "request_items": items, "years": [], "exclude_year": True, "prefix": None, "merge": True, "style": style, "mode": mode,
                "no_replace": draw(st.booleans())}
    return {"existing": existing, "holders": new_holders, "years": years, "exclude_year": exclude, "prefix": prefix, "merge": merge, "style": style, "mode": mode}


def check_cli(ctx, c):
    import datetime

    ext = S.EXT_FOR_STYLE[c["style"]]
    name = "f" + ext
    ex_lines = sorted({V.notice(p, y, h) for p, y, h in c["existing"]})
    if ex_lines:
        if S.has_single(c["style"]):
            header = "\n".join(S.wrap_single(c["style"], ex_lines + ["", "SPDX-License-Identifier: MIT"])) + "\n\n"
        else:
            header = "\n".join(S.wrap_block(c["style"], ex_lines + ["", "SPDX-License-Identifier: MIT"])) + "\n\n"
    else:
        header = ""
    d = ctx.fresh_dir()
    try:
        tree.write_tree(d, {name: header + "body\n"})
        args = ["annotate"]
        for h in c["holders"]:
            args += ["--copyright", h]
        for it in c.get("request_items", []):
            args += ["--copyright", V.notice(*it)]
        if c.get("no_replace"):
            args.append("--no-replace")
        if not c["holders"]:
            args += ["--license", "ISC"]
        for y in c["years"]:
            args += ["--year", y]
        if c["exclude_year"]:
            args.append("--exclude-year")
        if c["prefix"]:
            args += ["--copyright-prefix", c["prefix"]]
        if c["merge"]:
            args.append("--merge-copyrights")
        args.append(name)
        res = cli.run(args, d)
        if res.crash is not None or res.code != 0:
            ctx.fail(c, f"annotate failed: {res.brief()}")
        if c["exclude_year"]:
            yr = None
        elif not c["years"]:
            yr = str(datetime.date.today().year)
        elif len(c["years"]) == 1:
            yr = c["years"][0]
        else:
            yr = f"{min(c['years'])} - {max(c['years'])}"
        pfx = c["prefix"] or "spdx"
        new_items = [(pfx, yr, h) for h in c["holders"]] + [tuple(it) for it in c.get("request_items", [])]
        new_lines = {V.notice(*it) for it in new_items}
        _r, data = tree.lint_json(d)
        ent = tree.file_entry(data, name) if data else None
        if ent is None:
            ctx.fail(c, "lint --json does not list the annotated file")
        got = {x["value"] for x in ent["copyrights"]}
        per_holder = {}
        for _p, _y, h in c["existing"] + new_items:
            per_holder[h] = per_holder.get(h, 0) + 1
        ctx.count(c, nontrivial=bool((yr and pfx != "spdx") or (c["merge"] and any(v >= 2 for v in per_holder.values()))),
                  labels=[f"cli:merge={c['merge']}", f"cli:style={c['style']}", f"cli:years={len(c['years'])}", f"cli:mode={c.get('mode')}", f"cli:no-replace={bool(c.get('no_replace'))}"])
        if c["merge"]:
            # (the requested statements are merged among themselves too, also when there is no header yet)
            judge_merged(ctx, c, got, merge_expect(c["existing"] + new_items), "annotate --merge-copyrights + lint")
        else:
            want = set(ex_lines) | new_lines
            if got != want:
                ctx.fail(c, f"after annotate, lint reads {sorted(got)!r}, expected {sorted(want)!r}")
    finally:
        tree.rmtree(d)


def replay(ctx, case):
    if "notices" in case:
        items = []
        for line in case["notices"]:
            p, yrs, h = V.parse_notice(line)
            pname = [k for k, v in V.PREFIXES.items() if v == p][0]
            y = None if yrs is None else (str(yrs[0]) if yrs[0] == yrs[1] else f"{yrs[0]} - {yrs[1]}")
            items.append((pname, y, h))
        check_merge(ctx, items)
    elif "holders" in case:
        case = dict(case)
        case["existing"] = [tuple(x) for x in case["existing"]]
        check_cli(ctx, case)
    else:
        check_build(ctx, (case["holder"], case["year"], case["prefix"], case["wrap"], case["already"], case["prefix2"]))


def run(ctx):
    q = ctx.tier == "quick"
    hyp_run(ctx, "build", build_case, lambda c: check_build(ctx, c), 1500 if q else 20000)
    hyp_run(ctx, "merge", merge_case(), lambda c: check_merge(ctx, c), 1500 if q else 20000)
    hyp_run(ctx, "cli", cli_case(), lambda c: check_cli(ctx, c), 60 if q else 1500)
