"""C11 — A failed annotation leaves the tree as it was and shows in the exit
status.

Invocations over 1..4 files in which a generated subset fails for an
anticipated reason, crossed with the position in the argument list and the
.license / style options.  Oracle: whole-tree snapshot before/after — every
failing file and its .license sibling unchanged / still absent, every other
file annotated, exit 1 iff some file failed; usage errors: exit 2 and an empty
snapshot delta.
"""

from hypothesis import strategies as st

from vlib import annot as AN
from vlib import cli, tree
from vlib.core import hyp_run
from vlib.gen import project as P
from vlib.gen import styles as S

ID = "C11"
LEVEL = "fault_enumeration"
RULE = (
    "Invocation = 1..4 files (27 styles by extension, unrecognised extensions, uncommentable types, binaries) x one failure reason in {holder contains "
    "the style's multi-line terminator (with --multi-line or a multi-only style), holder whose tail mirrors a comment marker of the file's style (refused, or written so that it reads back whole), template dropping licences / copyright / both, existing header with an "
    "unparseable expression, unrecognised extension without fallback (also next to a file recognised by NAME that has the same extension), --single-line / --multi-line unsupported by a named file, mutually exclusive "
    "options, missing template, a holder that cannot be encoded as UTF-8, no reason}; a FILE.license that is a directory x {none, --force-dot-license, --fallback-dot-license, --skip-unrecognised, --skip-existing} x forced --style x "
    "argument order.  Which files fail is known by construction.  Oracle: snapshot delta touches only succeeding files (or their .license), failing "
    "files and siblings untouched / not created, succeeding files carry the requested tags, exit status 1 iff a file failed else 0; usage error => exit "
    "2 and no change at all.  Non-trivial = a failing and a succeeding file in one invocation, or a failing file with a .license option; distinct by case."
)
ASSUMPTIONS = ["failure reasons are the anticipated ones of the statement; undecodable input and other crashes are C16's subject"]

REASONS = ["unencodable", "terminator", "terminator", "mirror-tail", "mirror-tail", "fixedonly", "fixedonly", "droplast", "droplic", "dropcop", "dropboth", "cdroplic", "cdropcop", "cdropboth", "bad-existing", "unrecognised", "line-unsupported", "mutex", "missing-template", "none"]


def named_twins():
    """File names the tool recognises by NAME whose extension alone is unrecognised (CMakeLists.txt, go.mod ...), as
    (name, suffix): a file 'twin<i><suffix>' next to one of them is an unrecognised file sharing a recognised file's extension."""
    from pathlib import PurePath

    from reuse.comment import EXTENSION_COMMENT_STYLE_MAP, FILENAME_COMMENT_STYLE_MAP

    out = []
    for name in sorted(FILENAME_COMMENT_STYLE_MAP):
        suf = PurePath(name).suffix
        if suf and suf.lower() not in EXTENSION_COMMENT_STYLE_MAP and AN.style_of(name) in S.STYLES and AN.style_of("twin0" + suf) is None:
            out.append((name, suf))
    return out


@st.composite
def case(draw):
    n = draw(st.integers(1, 4))
    files = []
    twins = named_twins()
    for i in range(n):
        kind = draw(st.sampled_from(["style"] * 6 + ["unrecognised", "uncommentable", "binary"] + (["named-twin"] if twins and i + 1 < n else [])))
        if kind == "named-twin":
            # a file recognised by its name, and an unrecognised file with the same extension in the same invocation
            name, suf = draw(st.sampled_from(twins))
            if not any(f["name"] == name for f in files):
                files.append({"name": name, "style": AN.style_of(name), "binary": False, "existing": None, "dotlicense_exists": False, "dotlicense_dir": False})
            files.append({"name": f"twin{i}{suf}", "style": None, "binary": False, "existing": None, "dotlicense_exists": False, "dotlicense_dir": False})
            continue
        if kind == "style":
            style = draw(st.sampled_from(sorted(S.STYLES)))
            name = f"f{i}{S.EXT_FOR_STYLE[style]}"
        elif kind == "unrecognised":
            style, name = None, f"f{i}.xyz"
        elif kind == "uncommentable":
            style, name = "uncommentable", f"f{i}.json"
        else:
            style = draw(st.sampled_from(["python", "c", "html"]))
            name = f"f{i}{S.EXT_FOR_STYLE[style]}"
        files.append({"name": name, "style": style, "binary": kind == "binary",
                      "existing": draw(st.sampled_from([None, None, "good", "bad"])), "dotlicense_exists": draw(st.integers(0, 4)) == 0,
                      # FILE.license is a directory: the file cannot be annotated, the others can
                      "dotlicense_dir": kind == "style" and draw(st.integers(0, 9)) == 0})
    reason = draw(st.sampled_from(REASONS))
    return {"files": files, "reason": reason, "dot": draw(st.sampled_from([None, None, "force", "fallback", "skip"])),
            "multi": draw(st.booleans()), "forced_style": draw(st.one_of(st.none(), st.none(), st.sampled_from(sorted(S.STYLES)))),
            "skip_existing": draw(st.integers(0, 5)) == 0, "order": draw(st.permutations(list(range(len(files))))), "mutex_pick": draw(st.integers(0, len(MUTEX) - 1)),
            "mirror_pick": draw(st.integers(0, 7))}


def terminator_of(style):
    if style in S.STYLES and S.has_multi(style):
        return S.STYLES[style][1][2].strip()
    return None


def check(ctx, c):
    reason = c["reason"]
    files = c["files"]
    dot = c["dot"]
    forced = c["forced_style"]
    if dot == "skip" and forced:
        forced = None
    root = ctx.fresh_dir()
    try:
        AN.install_templates(root)
        tfiles = {}
        for f in files:
            if f["binary"]:
                tfiles[f["name"]] = b"\x00\x01\x02\xff\xfe\x00bin\x00"
            else:
                body = "code\n"
                st_ = f["style"] if f["style"] in S.STYLES else "python"
                if f["existing"] == "good":
                    tfiles[f["name"]] = P.header_text(st_, ["SPDX-FileCopyrightText: 2001 Old Holder"], ["ISC"], body=body)
                elif f["existing"] == "bad":
                    tfiles[f["name"]] = P.header_text(st_, ["SPDX-FileCopyrightText: 2001 Old Holder"], [], body=body, extra_invalid="ISC AND")
                else:
                    tfiles[f["name"]] = body
            if f.get("dotlicense_dir"):
                f["dotlicense_exists"] = False
                tfiles[f["name"] + ".license"] = ("dir",)
            if f["dotlicense_exists"]:
                # (sometimes a placeholder of zero bytes: it was there before, so it has to stay when the annotation fails)
                tfiles[f["name"] + ".license"] = "SPDX-FileCopyrightText: 2002 Sibling Holder\n" if len(f["name"]) % 3 else ""
        tree.write_tree(root, tfiles)
        # ---- request
        holder = "Jane Doe"
        term = None
        if reason == "terminator":
            # a terminator of one of the involved styles inside the holder
            terms = [terminator_of(forced or f["style"]) for f in files]
            terms = [t for t in terms if t]
            term = terms[0] if terms else "*/"
            holder = f"Jane {term} Doe"
            if term == "}" and c.get("mirror_pick", 0) % 2:
                # as many opening as closing braces, the closing one first: the comment still ends in the middle of the line
                holder = ["Doe} and {Roe", "Jane }{ Doe"][c.get("mirror_pick", 0) // 2 % 2]
        if reason == "mirror-tail":
            # a holder whose tail, after a blank, mirrors a comment marker of one of the files' styles ('Example Team #' in a Python file):
            # the reader takes such a tail for an ASCII-art frame, so the tool has to refuse that file -- or write something that reads back whole
            marks = []
            for f in files:
                stl = forced or (f["style"] if f["style"] in S.STYLES else None)
                if stl:
                    single, multi = S.STYLES[stl]
                    if single:
                        marks.append(single.strip()[::-1])
                    if multi and multi[1].strip():
                        marks.append(multi[1].strip()[::-1])
            marks = [m for m in marks if m and not m.isalnum()] or ["#"]
            holder = "Example Team " + marks[c.get("mirror_pick", 0) % len(marks)]
        if reason == "unencodable":
            holder = "Jane \udcff Doe"  # what a command-line byte that is not valid UTF-8 becomes
        args = ["annotate", "--copyright", holder, "--license", "MIT", "--year", "2020"]
        if reason == "droplast":
            # two licences, the one the template drops being a substring of the one it keeps
            args = ["annotate", "--copyright", holder, "--license", "GPL-3.0-or-later", "--license", "LGPL-3.0-or-later", "--year", "2020"]
        multi_flag = c["multi"] and reason in ("terminator", "none", "bad-existing")
        if multi_flag:
            args.append("--multi-line")
        if reason == "line-unsupported":
            args.append("--single-line" if c["multi"] else "--multi-line")
        if reason in AN.DROPPING or reason == "fixedonly":
            args += ["--template", reason]
        if reason == "missing-template":
            args += ["--template", "does-not-exist"]
        if reason == "mutex":
            args += draw_mutex(c)
        if forced:
            args += ["--style", forced]
        if dot:
            args.append({"force": "--force-dot-license", "fallback": "--fallback-dot-license", "skip": "--skip-unrecognised"}[dot])
        if c["skip_existing"]:
            args.append("--skip-existing")
        ordered = [files[i] for i in c["order"]]
        args += [f["name"] for f in ordered]
        before = AN.snapshot(root)
        res = cli.run(args, root)
        after = AN.snapshot(root)
        delta = {p for p in set(before) | set(after) if before.get(p) != after.get(p)}
        case_d = dict(c, args=args)

        # ---- expected classification, by construction
        def eff_style(f):
            return forced or (f["style"] if f["style"] in S.STYLES else None)

        def goes_to_dotlicense(f):
            return f["binary"] or f["style"] == "uncommentable" or dot == "force" or f["dotlicense_exists"]

        usage = False
        if reason in ("mutex", "missing-template"):
            usage = True
        # unrecognised file without any way out
        if any(f["style"] is None and not f["binary"] and not f["dotlicense_exists"] for f in files) and not (forced or dot):
            usage = True
        line_flag = "multi" if (multi_flag or (reason == "line-unsupported" and not c["multi"])) else ("single" if reason == "line-unsupported" else None)
        if line_flag:
            for f in files:
                if f["dotlicense_exists"]:
                    stl = forced  # FILE.license is handled with the forced style or as plain text
                    if stl is None:
                        usage = True  # plain .license text supports neither line mode
                        continue
                else:
                    stl = eff_style(f)
                    if stl is None:
                        continue
                if line_flag == "multi" and not S.has_multi(stl) or line_flag == "single" and not S.has_single(stl):
                    usage = True
        labels = [f"reason:{reason}", f"dot:{dot}", f"forced:{bool(forced)}", f"nfiles:{len(files)}", f"exit:{res.code}", f"usage-expected:{usage}"]
        if res.crash is not None:
            ctx.count(case_d, labels=labels + ["crash-left-to-C16"])
            # whatever the traceback (C16's subject): no file may be left damaged, i.e. changed without carrying the complete new header
            for pth in sorted(delta):
                data = after.get(pth)
                if pth in before and (not isinstance(data, bytes) or b"SPDX-License-Identifier: MIT" not in data):
                    ctx.fail(case_d, f"annotate ended in {type(res.crash).__name__} and left {pth} damaged: before {before[pth][:80]!r}, after {data if data is None else data[:80]!r}")
            if reason == "unencodable" or any(f.get("dotlicense_dir") for f in files):
                ctx.fail(case_d, f"annotate ended in {type(res.crash).__name__}: {res.crash} — the file that cannot be annotated has to be reported (exit 1) and the others still processed")
            return
        if usage:
            ctx.count(case_d, nontrivial=True, labels=labels, sample={"args": args, "exit": res.code})
            if res.code != 2:
                ctx.fail(case_d, f"expected a usage error (exit 2) before any file is touched, got {res.brief()}")
            if delta:
                ctx.fail(case_d, f"usage error (exit 2) but the tree changed: {sorted(delta)}")
            return
        if res.code == 2:
            # a usage error we did not predict: still, nothing may have been touched
            ctx.count(case_d, labels=labels + ["unpredicted-usage-error"])
            if delta:
                ctx.fail(case_d, f"usage error (exit 2) but the tree changed: {sorted(delta)}")
            return
        failing, succeeding, skipped = [], [], []
        for f in files:
            target_is_sibling = goes_to_dotlicense(f) or (f["style"] is None and dot == "fallback" and not forced)
            stl = None if target_is_sibling and not forced else eff_style(f)
            if f["style"] is None and not f["binary"] and not f["dotlicense_exists"] and dot == "skip":
                skipped.append(f)
                continue
            # does the text the header must merge with hold REUSE info / a bad expression?
            if target_is_sibling:
                old_info = bool(f["dotlicense_exists"])
                old_bad = False
            else:
                old_info = f["existing"] is not None
                old_bad = f["existing"] == "bad"
            if c["skip_existing"] and old_info and not old_bad:
                skipped.append(f)
                continue
            fails = False
            if reason in AN.DROPPING or reason == "unencodable" or f.get("dotlicense_dir"):
                fails = True
            if reason == "fixedonly" and not f.get("dotlicense_dir"):
                # the template states exactly the request and nothing else: fine for a target without information, information-dropping for
                # one that declares something of its own (which has to be carried over when the header is replaced)
                # (an existing header counts only where it is found, i.e. searched for in the style it is written in; elsewhere the
                # new header is stacked on top and nothing is lost: not asserted)
                if target_is_sibling:
                    has = bool(f["dotlicense_exists"]) and len(f["name"]) % 3 != 0
                    fails = (True if not forced else None) if has else False
                else:
                    own_style = f["style"] if f["style"] in S.STYLES else "python"
                    fails = (True if (not forced or forced == own_style) else None) if f["existing"] == "good" else (None if f["existing"] == "bad" else False)
            if reason == "terminator" and stl and S.has_multi(stl) and term and term in holder:
                uses_multi = multi_flag or not S.has_single(stl)
                if uses_multi and S.STYLES[stl][1][2].strip() == term:
                    fails = True
                elif uses_multi and S.STYLES[stl][1][2].strip() in holder:
                    fails = True
            if reason == "mirror-tail" and not fails:
                fails = None  # refused or round-tripped, judged below by reading the file back
            if old_bad and not target_is_sibling and not fails:
                # a header whose expression does not parse is not recognised as a header: the tool puts a new
                # one on top (success) — or refuses; the statement does not say which, so nothing is asserted
                fails = None
            (failing if fails else succeeding if fails is False else skipped).append(f)
        ctx.count(case_d, nontrivial=bool(failing and succeeding) or bool(failing and dot in ("force", "fallback")),
                  labels=labels + [f"failing:{min(len(failing), 2)}", f"succeeding:{min(len(succeeding), 2)}"],
                  sample={"args": args, "exit": res.code, "failing": [f["name"] for f in failing], "succeeding": [f["name"] for f in succeeding]})
        for f in failing:
            for p in (f["name"], f["name"] + ".license"):
                if before.get(p) != after.get(p):
                    ctx.fail(case_d, f"{f['name']} cannot be annotated ({reason}) but {p} was {'created' if p not in before else 'changed'}: {after.get(p)!r}")
        unknown = [f for f in skipped]
        if reason == "mirror-tail" and res.code in (0, 1):
            _r, data = tree.lint_json(root)
            untouched = 0
            for f in files:
                tgt = [p for p in (f["name"], f["name"] + ".license") if p in delta]
                if not tgt:
                    untouched += 1
                    continue
                if f["existing"] == "bad" and f["name"] in tgt:
                    continue  # the file holds an unparseable expression of its own: the linter reads nothing from it anyway
                ent = tree.file_entry(data, f["name"]) if data else None
                got = [x["value"] for x in ent["copyrights"]] if ent else None
                if got is None or not any(v.endswith(holder) for v in got):
                    ctx.fail(case_d, f"{f['name']} was rewritten for holder {holder!r} but the linter reads back {got}: a header that does not read back must be refused, the file left alone")
            if res.code == 0 and any(f not in skipped and not any(p in delta for p in (f["name"], f["name"] + ".license")) for f in files):
                ctx.label("mirror-tail:untouched-with-exit-0")
        for f in succeeding:
            target = f["name"] + ".license" if (goes_to_dotlicense(f) or (f["style"] is None and dot == "fallback" and not forced)) else f["name"]
            data = after.get(target)
            if not isinstance(data, bytes) or b"SPDX-License-Identifier: MIT" not in data or holder.encode() not in data:
                ctx.fail(case_d, f"{f['name']} should have been annotated (in {target}) although other files failed; content {data!r}; stdout {res.out!r}")
        if failing and res.code != 1:
            ctx.fail(case_d, f"{[f['name'] for f in failing]} failed but the exit status is {res.code}: {res.out!r}")
        if not failing and not unknown and res.code != 0:
            ctx.fail(case_d, f"no file should fail but the exit status is {res.code}: {res.out!r} {res.err[-300:]!r}")
        allowed = set()
        for f in succeeding + unknown:
            allowed |= {f["name"], f["name"] + ".license"}
        extra = delta - allowed
        if extra:
            ctx.fail(case_d, f"paths changed that belong to no succeeding file: {sorted(extra)}")
    finally:
        tree.rmtree(root)


# every documented pair of mutually exclusive options, and the hidden American spelling of --skip-unrecognised in each of its pairs
MUTEX = [["--single-line", "--multi-line"], ["--year", "2001", "--exclude-year"], ["--force-dot-license", "--fallback-dot-license"],
         ["--skip-unrecognised", "--force-dot-license"], ["--skip-unrecognised", "--fallback-dot-license"], ["--style", "python", "--skip-unrecognised"],
         ["--skip-unrecognized", "--force-dot-license"], ["--skip-unrecognized", "--fallback-dot-license"], ["--style", "python", "--skip-unrecognized"]]


def draw_mutex(c):
    k = c.get("mutex_pick", len(c["files"]) + (1 if c["multi"] else 0))
    return MUTEX[k % len(MUTEX)]


def replay(ctx, c):
    c = {k: v for k, v in c.items() if k != "args"}
    check(ctx, c)


def run(ctx):
    q = ctx.tier == "quick"
    hyp_run(ctx, "invocations", case(), lambda c: check(ctx, c), 800 if q else 8000)
