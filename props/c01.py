"""C01 — Lint verdict equals compliance with the REUSE specification.

Generated projects (compliant by construction with 0..4 injected defects, and
a fully random population) are linted with `reuse lint --json`; the exit
status, summary.compliant and every non_compliant list must equal what the
independent model (attribution + inventory + covered) derives from the
project's description.
"""

from hypothesis import strategies as st

from vlib import tree
from vlib.core import hyp_run
from vlib.gen import fullproject as FP
from vlib.gen import project as P

ID = "C01"
LEVEL = "exploration"
RULE = (
    "Projects of 1..7 covered files (27 comment styles, single-line or block headers, binary files, names with spaces / non-ASCII, sub-directories; the project directory itself is sometimes called 'pro[1]j*') "
    "whose information comes from headers, .license siblings, REUSE.toml tables (override / aggregate / closest, with a '**' fallback table) or dep5 "
    "paragraphs, LICENSES/ holding exactly the used identifiers, plus noise that must not be reported (LICENSE files, empty files, symlinks, SPDX "
    "documents, git-ignored files), with and without Git; then 0..4 defects from {strip copyright, strip licence, drop licence text, unused text, junk "
    "text, unknown id, wrong-case id, deprecated text, no extension, unreadable file, unparseable expression, licence tag without a value}; half of the projects without a fallback table also get a Meson subproject with a REUSE.toml of its own, linted with and without --include-meson-subprojects.  A second population is fully random.  "
    "Oracle: exit 0 <=> summary.compliant <=> model says compliant, and each of the eight offender collections equals the model's set.  Non-trivial = "
    ">= 1 defect or >= 2 source kinds; distinct by project state."
)
ASSUMPTIONS = [
    "reference models vlib/ref/{attribution,inventory,covered}.py state the specification clauses (a)-(d)",
    "unreadable files are produced by making FILE.license a directory (the sandbox runs as root, chmod has no effect)",
]

case = st.tuples(st.booleans().flatmap(lambda b: FP.project_state(compliant_bias=b or True)), st.booleans())
case_random = st.tuples(FP.project_state(compliant_bias=False), st.booleans())


def compare(ctx, state, root, res, data, exp, what="lint --json"):
    rel = lambda s: P.relativise(root, s)  # noqa: E731
    nc = data["non_compliant"]
    got = {
        "missing_licenses": {k: {rel(x) for x in v} for k, v in nc["missing_licenses"].items()},
        "bad_licenses": {k: {rel(x) for x in v} for k, v in nc["bad_licenses"].items()},
        "unused_licenses": set(nc["unused_licenses"]),
        "deprecated_licenses": set(nc["deprecated_licenses"]),
        "licenses_without_extension": {k: rel(v) for k, v in nc["licenses_without_extension"].items()},
        "missing_copyright_info": {rel(x) for x in nc["missing_copyright_info"]},
        "missing_licensing_info": {rel(x) for x in nc["missing_licensing_info"]},
        "read_errors": {rel(x) for x in nc["read_errors"]},
    }
    inv = exp["inv"]
    want = {
        "missing_licenses": inv["missing"],
        "bad_licenses": exp["bad"],
        "unused_licenses": inv["unused"],
        "deprecated_licenses": inv["deprecated"],
        "licenses_without_extension": exp["noext"],
        "missing_copyright_info": exp["missing_cop"],
        "missing_licensing_info": exp["missing_lic"],
        "read_errors": exp["read_errors"],
    }
    diffs = {k: (got[k], want[k]) for k in got if got[k] != want[k]}
    files_got = {f["path"] for f in data["files"]}
    if files_got != set(exp["files"]):
        diffs["files"] = (files_got, set(exp["files"]))
    if diffs:
        ctx.fail(state, f"{what}: " + "; ".join(f"{k}: tool {g!r} vs model {w!r}" for k, (g, w) in diffs.items()))
    if data["summary"]["compliant"] != exp["compliant"]:
        ctx.fail(state, f"{what}: summary.compliant={data['summary']['compliant']}, model says {exp['compliant']}")
    if res.code != (0 if exp["compliant"] else 1):
        ctx.fail(state, f"{what}: exit status {res.code} but model says compliant={exp['compliant']}")


def check(ctx, c):
    state, mp = c
    exp = FP.model(state)
    # the project directory's own name sometimes holds characters that are special to glob
    root = ctx.fresh_dir() / ("pro[1]j*" if len(state["files"]) % 3 == 0 else "p")
    root.mkdir()
    try:
        FP.materialise(root, state)
        # a Meson subproject with a REUSE.toml of its own: without --include-meson-subprojects it is not part of the project at all (its
        # licence text is then unused), with the option its file is covered and attributed by that REUSE.toml
        meson = state["gkind"] != "dep5" and len(state["files"]) % 2 == 0 and not state.get("fallback") \
            and not any(f["path"].startswith("subprojects/") for f in state["files"])
        if meson:
            tree.write_tree(root, {"subprojects/sp/x.py": "print('sub')\n", "LICENSES/LicenseRef-meson-sub.txt": "text\n",
                                   "subprojects/sp/REUSE.toml": "version = 1\n\n[[annotations]]\npath = '**'\nSPDX-FileCopyrightText = '2020 Sub Project'\nSPDX-License-Identifier = 'LicenseRef-meson-sub'\n"})
            if state["git"]:
                tree.git(root, "add", "-A")
            res_m, data_m = tree.lint_json(root, mp=mp, extra=("--include-meson-subprojects",))
            ctx.label("meson-subproject-with-own-REUSE.toml")
            if data_m is None:
                ctx.fail(state, f"lint --include-meson-subprojects --json failed: {res_m.brief()}")
            ent = tree.file_entry(data_m, "subprojects/sp/x.py")
            if ent is None or not ent["copyrights"] or not ent["spdx_expressions"]:
                ctx.fail(state, f"with --include-meson-subprojects, subprojects/sp/x.py should be covered and attributed by subprojects/sp/REUSE.toml: entry {ent}")
            exp_m = dict(exp, files=dict(exp["files"], **{"subprojects/sp/x.py": None}))
            compare(ctx, state, root, res_m, data_m, exp_m, what="lint --include-meson-subprojects --json")
            inv2 = dict(exp["inv"], unused=set(exp["inv"]["unused"]) | {"LicenseRef-meson-sub"})
            exp = dict(exp, inv=inv2, compliant=False)
        res, data = tree.lint_json(root, mp=mp)
        kinds = set()
        for f in state["files"]:
            for k in ("own", "dotlic", "table", "para"):
                if f[k]:
                    kinds.add(k)
        cats = [k for k, v in (("missing_cop", exp["missing_cop"]), ("missing_lic", exp["missing_lic"]), ("read_error", exp["read_errors"]),
                               ("missing", exp["inv"]["missing"]), ("unused", exp["inv"]["unused"]), ("bad", exp["bad"]),
                               ("deprecated", exp["inv"]["deprecated"]), ("noext", exp["noext"])) if v]
        ctx.count(state, nontrivial=bool(state["defects"]) or len(kinds) >= 2,
                  labels=[f"defects:{min(len(state['defects']), 3)}", f"gkind:{state['gkind']}", f"git:{state['git']}", f"compliant:{exp['compliant']}", f"mp:{mp}"]
                  + [f"defect:{d}" for d in state["defects"]] + [f"category:{c_}" for c_ in cats] + [f"source:{k}" for k in sorted(kinds)],
                  sample={"files": [{k: f[k] for k in ("path", "kind", "style", "own", "dotlic", "table", "para", "unreadable")} for f in state["files"]],
                          "gkind": state["gkind"], "licenses": state["licenses"], "defects": state["defects"], "expected_compliant": exp["compliant"]})
        if data is None:
            ctx.fail(state, f"lint --json failed: {res.brief()}")
        compare(ctx, state, root, res, data, exp)
    finally:
        tree.rmtree(root.parent)


def replay(ctx, c):
    check(ctx, (c, False))


def run(ctx):
    q = ctx.tier == "quick"
    hyp_run(ctx, "compliant+defects", st.tuples(FP.project_state(compliant_bias=True), st.booleans()), lambda c: check(ctx, c), 110 if q else 1800)
    hyp_run(ctx, "random", case_random, lambda c: check(ctx, c), 50 if q else 800)
