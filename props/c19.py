"""C19 — download never overwrites and supplies exactly the missing licences.

Fault enumeration over network outcomes (local stub server on the loopback
interface) x request sets x pre-existing state of LICENSES/ x invocation
directory, alone and in sequences.  Oracle: tree snapshot before/after +
stub server log + exit status + a following `reuse lint --json`.
"""

import os
from pathlib import Path

from hypothesis import strategies as st

from vlib import annot as AN
from vlib import cli, tree
from vlib.core import hyp_run
from vlib.gen import project as P
from vlib.netstub import Stub

ID = "C19"
LEVEL = "fault_enumeration"
RULE = (
    "Invocation = request set (1..4 of: current / deprecated SPDX identifiers, 'ID+', unknown names, LicenseRef- with / without --source file | directory | "
    "directory lacking the file) | --all over a project with 0..4 missing licences (some of them unknown identifiers) | -o PATH, x per-identifier network plan {200 + body, 404, 500, "
    "connection reset, body shorter than Content-Length, 206 with part of the text, 204 without a body} x LICENSES/ pre-state {absent, empty, target already present with sentinel bytes or with zero bytes (also the -o path), target present as a dangling symbolic link pointing out of the project} x cwd {root, "
    "sub-directory of a Git repository, inside LICENSES/ with and without Git, outside with --root, outside with --root <project>/LICENSES}; arguments with a path separator in front of a real identifier; sequences of 1..3 invocations.  Oracle: every "
    "pre-existing file byte-identical; new files only LICENSES/<id without '+'>.txt under the root (or the -o path) with exactly the served body / the "
    "--source bytes / empty for a bare LicenseRef-; a failed identifier leaves no file and makes the exit status non-zero; all succeeded => exit 0; no "
    "request ever reaches the server for a LicenseRef-; after an exit-0 `download --all`, lint reports no missing licence.  Non-trivial = >= 1 failing "
    "outcome or >= 1 pre-existing target; distinct by case."
)
ASSUMPTIONS = [
    "the network is a loopback HTTP stub; reuse.download._SPDX_REPOSITORY_BASE_URL is pointed at it for the call",
    "a transport error after the response has started (reset, short body) surfaces as a traceback with non-zero exit: later identifiers of the batch are then not attempted (not required by the statement)",
]

STUB = None
VALID = ["MIT", "ISC", "GPL-3.0-or-later", "Apache-2.0", "CC0-1.0", "0BSD", "GPL-2.0", "EUPL-1.2"]
UNKNOWN = ["NotALicense", "mit", "GPL-9.9"]


@st.composite
def invocation(draw):
    mode = draw(st.sampled_from(["ids", "ids", "ids", "all", "output"]))
    ids = []
    if mode in ("ids", "output"):
        n = 1 if mode == "output" else draw(st.integers(1, 4))
        for _ in range(n):
            kind = draw(st.sampled_from(["valid", "valid", "valid", "plus", "unknown", "licenseref", "pathlike", "pathlike-ref", "toolong", "almost-ref"]))
            if kind == "valid":
                ids.append(draw(st.sampled_from(VALID)))
            elif kind == "plus":
                ids.append(draw(st.sampled_from(VALID)) + "+")
            elif kind == "unknown":
                ids.append(draw(st.sampled_from(UNKNOWN)))
            elif kind == "pathlike-ref":
                # not an identifier at all, although its tail looks like a LicenseRef-: nothing may be created anywhere
                ids.append(draw(st.sampled_from(["../LicenseRef-up", "src/LicenseRef-sub", "../../LicenseRef-out", "custom/LicenseRef-custom"])))
            elif kind == "almost-ref":
                # 'LicenseRef-' somewhere inside, not at the start: an ordinary (unknown) identifier that the server is asked for
                ids.append(draw(st.sampled_from(["MyLicenseRef-x", "DocumentRef-vendor:LicenseRef-custom", "xLicenseRef-custom"])))
            elif kind == "toolong":
                # an identifier no file name can carry (File name too long): a failed download, nothing created
                ids.append(draw(st.sampled_from(["a" * 300, "LicenseRef-" + "b" * 300])))
            elif kind == "pathlike":
                # an argument with a path separator whose last component is a real identifier (the server would serve it)
                ids.append(draw(st.sampled_from(["../text/", "text/", "sub/../", "../", "a/b/"])) + draw(st.sampled_from(VALID)))
            elif draw(st.integers(0, 5)) == 0:
                # not an identifier at all, although its tail looks like a LicenseRef-
                ids.append(draw(st.sampled_from(["../LicenseRef-up", "src/LicenseRef-sub", "../../LicenseRef-out"])))
            else:
                ids.append("LicenseRef-" + draw(st.sampled_from(["custom", "a.b", "X-1"])))
    plan = {}
    for i in VALID + UNKNOWN:
        plan[i] = draw(st.sampled_from(["ok", "ok", "ok", "ok", "ok", "404", "500", "reset", "short", "206", "204"]))
    for u in UNKNOWN:
        if plan[u] in ("ok", "short", "206", "204"):
            plan[u] = "404"
    return {"mode": mode, "ids": ids, "plan": plan, "source": draw(st.sampled_from([None, None, "file", "dir", "dir-missing"])),
            "cwd": draw(st.sampled_from(["root", "root", "sub", "licenses", "outside", "outside-licroot"])),
            # the -o target already exists (with text / with zero bytes)
            "out_pre": draw(st.sampled_from([None, None, None, "text", "empty"]))}


@st.composite
def case(draw):
    return {"git": draw(st.booleans()), "licenses_state": draw(st.sampled_from(["absent", "empty", "some"])),
            "preexisting": draw(st.lists(st.sampled_from(VALID + ["LicenseRef-custom"]), max_size=3, unique=True)),
            "used": draw(st.lists(st.sampled_from(VALID + ["LicenseRef-custom", "MIT+", "NotALicense", "GPL-9.9"]), max_size=4, unique=True)),
            "steps": draw(st.lists(invocation(), min_size=1, max_size=3)),
            # which of the pre-existing targets are zero bytes long (a placeholder of an earlier `download LicenseRef-x`, an interrupted editor ...)
            "empty_pre": draw(st.lists(st.sampled_from(VALID + ["LicenseRef-custom"]), max_size=3, unique=True)),
            # LICENSES/<id>.txt present as a dangling symbolic link that points out of the project
            "dangling": draw(st.lists(st.sampled_from(VALID + ["LicenseRef-custom"]), max_size=2, unique=True)) if draw(st.integers(0, 3)) == 0 else []}


def body_of(ident):
    return f"Text of {ident}\nsecond line é\n".encode("utf-8")


def check(ctx, c):
    global STUB
    if STUB is None:
        STUB = Stub()
    base = ctx.fresh_dir()
    root = base / "proj"
    root.mkdir()
    try:
        files = {"src/a.py": P.header_text("python", ["SPDX-FileCopyrightText: 2020 A"], [" AND ".join(c["used"])] if c["used"] else ["MIT"])}
        if c["licenses_state"] != "absent":
            files["LICENSES/.keep.license"] = "x\n"  # keeps the directory, not a licence text
        if c["licenses_state"] == "some":
            for i in c["preexisting"]:
                files[f"LICENSES/{i}.txt"] = b"" if i in c.get("empty_pre", []) else f"SENTINEL {i}\n"
        files["custom/LicenseRef-custom.txt"] = "custom licence text\n"
        files["custom/LicenseRef-a.b.txt"] = "text of a.b\n"
        files["custom/LicenseRef-a.txt"] = "text of a (another licence)\n"
        files["custom/one.txt"] = "single source file\n"
        files["emptydir/.keep"] = "x"
        tree.write_tree(root, files)
        for i in c.get("dangling", []):
            lp = root / "LICENSES" / f"{i}.txt"
            if (root / "LICENSES").is_dir() and not os.path.lexists(lp):
                os.symlink(f"../../outside-{i}.txt", lp)
        if c["git"]:
            tree.git_init(root)
        nontrivial = False
        for step in c["steps"]:
            before = AN.snapshot(base)
            if step["cwd"] == "outside-licroot" and (step["mode"] == "all" or not (root / "LICENSES").is_dir()):
                step = dict(step, cwd="outside")
            cwd = {"root": root, "sub": root / "src", "licenses": root / "LICENSES", "outside": base, "outside-licroot": base}[step["cwd"]]
            if not cwd.exists():
                cwd = root
                step = dict(step, cwd="root")
            pre = []
            eff_root = root
            if step["cwd"] == "outside":
                pre = ["--root", str(root)]
            elif step["cwd"] in ("sub", "licenses") and not c["git"]:
                # without a VCS the project root is the working directory
                eff_root = cwd
            lic_dir = eff_root / "LICENSES"
            if step["cwd"] == "licenses" and not c["git"]:
                lic_dir = cwd  # inside a directory called LICENSES, files go right there
            if step["cwd"] == "outside-licroot":
                # the directory called LICENSES is given as the root from elsewhere: without a VCS it is the licences directory itself,
                # inside a Git work tree it is an ordinary root with a LICENSES/ of its own
                pre = ["--root", str(root / "LICENSES")]
                lic_dir = root / "LICENSES" if not c["git"] else root / "LICENSES" / "LICENSES"
            args = [*pre, "download"]
            ids = list(step["ids"])
            out_path = None
            if step["mode"] == "all":
                args.append("--all")
            if step["mode"] == "output":
                out_path = base / "out dir" / "licence.txt"
                out_path.parent.mkdir(exist_ok=True)
                if step.get("out_pre") and not out_path.exists():
                    out_path.write_bytes(b"" if step["out_pre"] == "empty" else b"SENTINEL -o target\n")
                    before = AN.snapshot(base)
                args += ["-o", str(out_path)]
            src = None
            if step["source"] == "file":
                src = root / "custom/one.txt"
            elif step["source"] == "dir":
                src = root / "custom"
            elif step["source"] == "dir-missing":
                src = root / "emptydir"
            if src is not None:
                args += ["--source", str(src)]
            args += ids
            plan = {}
            for ident, how in step["plan"].items():
                plan[ident] = {"ok": ("ok", body_of(ident)), "404": ("status", 404), "500": ("status", 500), "reset": ("reset",), "short": ("short", b"partial"),
                               "206": ("status-body", 206, body_of(ident)[:9]), "204": ("status-body", 204, b"")}[how]
            with STUB.active(plan):
                res = cli.run(args, cwd)
                log = list(STUB.log)
            after = AN.snapshot(base)
            case_d = dict(c, failing_step=step, args=args)
            created = {p for p in after if p not in before}
            changed = {p for p in before if p in after and before[p] != after[p]}
            removed = {p for p in before if p not in after}
            if changed or removed:
                ctx.fail(case_d, f"download altered or removed pre-existing files: changed {sorted(changed)} removed {sorted(removed)}")
            proper_refs = {i for i in ids if i.startswith("LicenseRef-") and "/" not in i}
            if proper_refs & set(log):
                ctx.fail(case_d, f"a LicenseRef- identifier was requested from the network: {sorted(proper_refs & set(log))}")
            if res.code == 2:
                if created:
                    ctx.fail(case_d, f"usage error but files were created: {sorted(created)}")
                ctx.label("step:usage-error")
                continue
            if step["mode"] == "all":
                if res.crash is None and res.code == 0:
                    _r, data = tree.lint_json(root if step["cwd"] in ("root", "outside") or c["git"] else cwd)
                    if data is not None and data["non_compliant"]["missing_licenses"] and (step["cwd"] in ("root", "outside") or c["git"]):
                        ctx.fail(case_d, f"download --all exited 0 but lint still reports missing licences {sorted(data['non_compliant']['missing_licenses'])}")
                for p in created:
                    rel = os.path.relpath(base / p, lic_dir)
                    if rel.startswith("..") or not rel.endswith(".txt") or "/" in rel:
                        ctx.fail(case_d, f"download --all created {p}, outside {os.path.relpath(lic_dir, base)}/<id>.txt")
                    ident = rel[:-4]
                    if not ident.startswith("LicenseRef-") and after[p] != body_of(ident):
                        ctx.fail(case_d, f"{p} holds {after[p]!r}, the server served {body_of(ident)!r}")
                ctx.label("step:all")
                continue
            # ---- explicit identifiers: expectation per identifier
            want_created = {}
            any_fail = False
            targets = {}
            for ident in ids:
                stripped = ident[:-1] if ident.endswith("+") else ident
                targets.setdefault(stripped, None)
            crashy = False
            for stripped in targets:
                dest = out_path if out_path is not None else lic_dir / f"{stripped}.txt"
                rel = os.path.relpath(dest, base)
                if rel in before:
                    any_fail = True
                    nontrivial = True
                    continue
                if "/" in stripped:
                    any_fail = True  # nothing may be created for a path-like argument
                    continue
                if len((stripped + ".txt").encode()) > 255 and (out_path is None or (stripped.startswith("LicenseRef-") and step["source"] == "dir")):
                    any_fail = True  # no file name can carry it
                    nontrivial = True
                    continue
                if stripped.startswith("LicenseRef-"):
                    if step["source"] == "file":
                        want_created[rel] = (root / "custom/one.txt").read_bytes()
                    elif step["source"] == "dir":
                        f = root / "custom" / f"{stripped}.txt"
                        if f.exists():
                            want_created[rel] = f.read_bytes()
                        else:
                            any_fail = True
                    elif step["source"] == "dir-missing":
                        any_fail = True
                    else:
                        want_created[rel] = b""
                    continue
                how = step["plan"].get(stripped, "404")
                if how == "ok":
                    want_created[rel] = body_of(stripped)
                else:
                    any_fail = True
                    nontrivial = True
                    if how in ("reset", "short"):
                        crashy = True
            if res.crash is not None and not crashy:
                ctx.label("crash-left-to-C16")
                continue
            # files for failed identifiers must not exist; created files must be expected ones with the right bytes
            unexpected = created - set(want_created) - {os.path.relpath(lic_dir, base) + "/"}
            unexpected = {p for p in unexpected}
            if unexpected:
                ctx.fail(case_d, f"files created that no successful identifier accounts for: {sorted(unexpected)} (a failed transfer must leave nothing behind)")
            for rel, data in want_created.items():
                if rel in after:
                    if after[rel] != data:
                        ctx.fail(case_d, f"{rel} holds {after[rel]!r}, expected {data!r}")
                elif not crashy:
                    ctx.fail(case_d, f"{rel} was not created although its download succeeded; stdout {res.out!r}")
            if any_fail and res.code == 0:
                ctx.fail(case_d, f"an identifier failed but the exit status is 0: {res.out!r}")
            if not any_fail and res.code != 0:
                ctx.fail(case_d, f"every identifier succeeded but the exit status is {res.code}: {res.out!r} {res.err[-200:]!r}")
        ctx.count(c, nontrivial=nontrivial or (c["licenses_state"] == "some" and bool(c["preexisting"])),
                  labels=[f"git:{c['git']}", f"licenses:{c['licenses_state']}", f"dangling-links:{len(c.get('dangling', []))}", f"steps:{len(c['steps'])}"] + [f"mode:{s['mode']}" for s in c["steps"]] + [f"cwd:{s['cwd']}" for s in c["steps"]],
                  sample={"steps": [{k: s[k] for k in ("mode", "ids", "source", "cwd")} for s in c["steps"]], "licenses": c["licenses_state"], "preexisting": c["preexisting"]})
    finally:
        tree.rmtree(base)


def replay(ctx, c):
    c = {k: v for k, v in c.items() if k not in ("failing_step", "args")}
    check(ctx, c)


def run(ctx):
    q = ctx.tier == "quick"
    try:
        hyp_run(ctx, "download", case(), lambda c: check(ctx, c), 250 if q else 3000)
    finally:
        if STUB is not None:
            STUB.close()
