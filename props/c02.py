"""C02 — Licence, copyright and contributor tags are read exactly, in any
comment syntax.

Texts are assembled from tag lines (tag kind x value x comment style x form x
decoration) and filler lines; the expected sets are known by construction.
Function level: ``extract_reuse_info(text)``.  File level: bytes on disk with
LF / CRLF / CR, tags placed around the 4096-byte boundary, optional snippet
marker, optional unparseable expression, judged through ``reuse lint --json``.
"""

from hypothesis import strategies as st

from vlib import tree
from vlib.core import hyp_run
from vlib.gen import styles as S
from vlib.gen import values as V

ID = "C02"
LEVEL = "exploration"
RULE = (
    "Text = 1..5 tag lines + filler.  Tag line = {SPDX-License-Identifier, SPDX-FileContributor, copyright with one of the ten prefixes or "
    "SPDX-SnippetCopyrightText} x value (SPDX expression grammar / holder grammar / years) x one of 27 comment styles x form {bare, single-line, "
    "inline multi-line, block multi-line, terminator on the tag's own line, two stacked terminators in either order with / without a blank between, trailing comment after code that spells a marker word, ASCII-art frame} x indentation x trailing blanks x tab after the colon.  "
    "Function level: extract_reuse_info must return exactly the by-construction sets (or raise for an unparseable expression).  File level: the same "
    "content as bytes with LF/CRLF/CR, a tag ending at byte 4090..4096 or starting at byte 4096..4100, with/without SPDX-SnippetBegin, with/without an "
    "unparseable expression, in the file or its .license sibling, read through `reuse lint --json`.  Non-trivial = some tag carries decoration "
    "(comment marker, frame or terminator); distinct by text."
)
ASSUMPTIONS = [
    "comment syntaxes re-stated in vlib/gen/styles.py; values never end in a comment terminator (reader cannot tell, documented ambiguity)",
    "licence values compared after normalisation by the third-party license_expression parser",
    "tags straddling the 4096-byte boundary are not generated (statement silent)",
]

FILLER = ["int main(void) { return 0; }", "x = 1", "", "    indented code", "plain words here", "def f(): pass", "<p>text</p>", "; asm", "\tTabbed"]
FRAMES = ["|*", "##", "**", "#", "*", "//", "|", ";;", "%%"]
WS = [" ", "  ", "\t"]
# tag names without a value: such a line states nothing, and the line after it is read as usual
EMPTY_TAGS = ["SPDX-License-Identifier:", "# SPDX-License-Identifier:", "// SPDX-License-Identifier: ", " * SPDX-License-Identifier:\t", "SPDX-FileContributor:",
              "# SPDX-FileContributor:", "-- SPDX-FileContributor:", "License: see SPDX-License-Identifier:", "# SPDX-FileContributor:  ", "SPDX-FileContributor: \t"]


def _norm_expr(value):
    from reuse import _LICENSING

    # compared as parsed objects: the expression library's own equality
    # (A AND B == B AND A) decides whether two values are "the same"
    return _LICENSING.parse(value)


@st.composite
def tag(draw, allow_invalid=False):
    kind = draw(st.sampled_from(["lic", "lic", "cop", "cop", "con"]))
    if kind == "lic":
        if allow_invalid and draw(st.integers(0, 5)) == 0:
            v = draw(st.sampled_from(V.INVALID_EXPRESSIONS))
            return {"kind": "bad", "text": f"SPDX-License-Identifier: {v}", "value": v}
        v = draw(V.expression(2))
        sep = draw(st.sampled_from([" ", " ", "\t", "  "]))
        return {"kind": "lic", "text": f"SPDX-License-Identifier:{sep}{v}", "value": v}
    if kind == "con":
        v = draw(V.holder())
        sep = draw(st.sampled_from([" ", " ", "\t"]))
        return {"kind": "con", "text": f"SPDX-FileContributor:{sep}{v}", "value": v}
    h = draw(V.holder(markers=True))
    y = draw(V.opt_year())
    if draw(st.integers(0, 9)) == 0:
        line = f"SPDX-SnippetCopyrightText: {y + ' ' if y else ''}{h}"
    else:
        line = V.notice(draw(st.sampled_from(sorted(V.PREFIXES))), y, h)
    return {"kind": "cop", "text": line, "value": line}


@st.composite
def tag_segment(draw, allow_invalid=False):
    """A list of physical lines holding exactly one tag."""
    t = draw(tag(allow_invalid))
    form = draw(st.sampled_from(["bare", "single", "single", "inline", "block", "lastline", "frame", "stacked", "after-code"]))
    indent = draw(st.sampled_from(["", "", "  ", "\t", "    "]))
    trailing = draw(st.sampled_from(["", "", "", " ", "  ", "\t"]))
    prefix_text = ""
    if form == "single":
        style = draw(st.sampled_from([s for s in S.STYLES if S.has_single(s)]))
        lines = S.wrap_single(style, [t["text"]], indent, trailing)
        prefix_text = S.STYLES[style][0]
    elif form == "inline":
        style = draw(st.sampled_from([s for s in S.STYLES if S.has_multi(s)]))
        lines = [S.wrap_inline(style, t["text"], indent, trailing)]
        prefix_text = S.STYLES[style][1][0]
    elif form == "block":
        style = draw(st.sampled_from([s for s in S.STYLES if S.has_multi(s)]))
        extra = draw(st.sampled_from([[], ["Some descriptive text."], [""]]))
        lines = S.wrap_block(style, extra + [t["text"]], indent, trailing)
        prefix_text = S.STYLES[style][1][1].strip()
    elif form == "lastline":
        # START / ... / MID tag END  (terminator shares the tag's line)
        style = draw(st.sampled_from([s for s in S.STYLES if S.has_multi(s)]))
        start, mid, end = S.STYLES[style][1]
        lines = [f"{indent}{start}", f"{indent}{mid} {t['text']} {end.strip()}{trailing}"]
        prefix_text = mid.strip()
    elif form == "after-code":
        # a trailing comment: code in front of it, some of it spelled with a marker word that starts no notice ('showCopyright(')
        style = draw(st.sampled_from([s_ for s_ in S.STYLES if S.has_single(s_) and not S.STYLES[s_][0][-1].isalnum()]))
        code = draw(st.sampled_from(["showCopyright();", "CopyrightHeader = 1", "open('Copyright.txt')", "int copyright_year = 0;", "x = 1", "licenseIdentifier(SPDX);"]))
        lines = [f"{indent}{code} {S.STYLES[style][0]} {t['text']}{trailing}"]
        prefix_text = code + " " + S.STYLES[style][0]
    elif form == "stacked":
        # a comment inside a comment: two terminators after the value, in either order, with or without a blank between them
        # ('<!-- /* ... */ -->', '(* <!-- ... -->*)', '-->-->')
        multis = [s_ for s_ in S.STYLES if S.has_multi(s_)]
        style = draw(st.sampled_from(multis))
        inner = draw(st.sampled_from(multis))
        gap = draw(st.sampled_from(["", "", " ", "  "]))
        lines = [f"{indent}{S.STYLES[style][1][0]} {S.STYLES[inner][1][0]} {t['text']} {S.STYLES[inner][1][2].strip()}{gap}{S.STYLES[style][1][2].strip()}{trailing}"]
        prefix_text = S.STYLES[style][1][0]
    elif form == "frame":
        style = "frame"
        p = draw(st.sampled_from(FRAMES))
        w1 = draw(st.sampled_from(WS))
        # without padding a closing frame cannot be told from a holder's own
        # tail ("Team C#"); for copyright lines only padded frames are drawn
        w2 = draw(st.sampled_from(WS + ([""] if t["kind"] != "cop" else [])))
        lines = [f"{indent}{p}{w1}{t['text']}{w2}{p[::-1]}{trailing}"]
        if draw(st.booleans()):
            bar = "*" * 30
            lines = [f"{indent}/{bar}\\"] + lines + [f"{indent}\\{bar}/"]
        prefix_text = p
    else:
        style = "none"
        lines = [f"{indent}{t['text']}{trailing}"]
    t = dict(t, form=form, style=style, prefix_text=prefix_text, trailing=bool(trailing))
    return {"lines": lines, "tag": t}


@st.composite
def text_case(draw, allow_invalid=True):
    nseg = draw(st.integers(1, 5))
    segs = []
    for _ in range(nseg):
        if draw(st.integers(0, 3)) == 0:
            segs.append({"lines": [draw(st.sampled_from(FILLER))], "tag": None})
        if draw(st.integers(0, 5)) == 0:
            segs.append({"lines": [draw(st.sampled_from(EMPTY_TAGS))], "tag": None, "empty_tag": True})
        segs.append(draw(tag_segment(allow_invalid)))
        if draw(st.integers(0, 2)) == 0:
            segs.append({"lines": [draw(st.sampled_from(FILLER))], "tag": None})
    if draw(st.integers(0, 9)) == 0:
        # a value ending in a quote or bracket, and a next line that begins like the rest of a 'special ending' ('">', '] ::')
        v, nxt = draw(st.sampled_from([('Jane "JD"', ">"), ("Jane 'JD'", "/>"), ("Jane [x]", "::"), ('Zoe "Z"', "  > quoted text")]))
        segs.append({"lines": [f"# SPDX-FileContributor: {v}", nxt], "tag": {"kind": "con", "text": f"SPDX-FileContributor: {v}", "value": v, "form": "single", "style": "python",
                                                                              "prefix_text": "#", "trailing": False}})
    if draw(st.integers(0, 7)) == 0:
        segs[0] = dict(segs[0], lines=["\ufeff" + segs[0]["lines"][0]] + segs[0]["lines"][1:], bom=True)
    return segs


def expected_of(tags):
    lic, cop, con, bad = set(), set(), set(), False
    for t in tags:
        if t["kind"] == "lic":
            lic.add(_norm_expr(t["value"]))
        elif t["kind"] == "cop":
            cop.add(t["value"])
        elif t["kind"] == "con":
            con.add(t["value"])
        else:
            bad = True
    return lic, cop, con, bad


def signature_of(tags, got_lic, got_cop, got_con):
    """Narrow signatures of recorded findings (see known_findings.txt)."""
    for t in tags:
        pt = t.get("prefix_text", "")
        if (t["kind"] in ("lic", "con", "bad") and pt and not any(ch.isalnum() for ch in pt)
                and t["value"].endswith(pt[::-1])):
            return "mirrored-punctuation-tail"
    return ""


def check_text(ctx, segs):
    from boolean.boolean import ParseError
    from license_expression import ExpressionError
    from reuse.extract import extract_reuse_info

    lines = [ln for s in segs for ln in s["lines"]]
    tags = [s["tag"] for s in segs if s["tag"]]
    text = "\n".join(lines) + "\n"
    lic, cop, con, bad = expected_of(tags)
    case = {"text": text, "tags": [{k: t[k] for k in ("kind", "value", "form", "style", "prefix_text")} for t in tags]}
    ctx.count(text, nontrivial=any(t["form"] != "bare" for t in tags),
              labels=[f"form:{t['form']}" for t in tags] + [f"style:{t['style']}" for t in tags] + [f"kind:{t['kind']}" for t in tags]
              + (["trailing-after-terminator"] if any(t["trailing"] and t["form"] in ("inline", "lastline", "frame") for t in tags) else [])
              + (["valueless-tag-line-before-a-tag"] if any(s.get("empty_tag") for s in segs) else []) + (["byte-order-mark-first"] if segs[0].get("bom") else []),
              sample=case)
    try:
        info = extract_reuse_info(text)
    except (ExpressionError, ParseError):
        if bad:
            return
        sig = signature_of(tags, None, None, None)
        ctx.fail(case, f"a valid expression was rejected as unparseable; expected licences {sorted(map(str, lic))}", sig)
        return
    g_lic = set(info.spdx_expressions)
    g_cop = set(info.copyright_lines)
    g_con = set(info.contributor_lines)
    if bad:
        ctx.fail(case, f"text holds an unparseable expression but extract_reuse_info returned {sorted(map(str, g_lic))}")
    if (g_lic, g_cop, g_con) != (lic, cop, con):
        sig = signature_of(tags, g_lic, g_cop, g_con)
        ctx.fail(case, f"read licences={sorted(map(str, g_lic))} copyrights={sorted(g_cop)} contributors={sorted(g_con)}; "
                       f"written licences={sorted(map(str, lic))} copyrights={sorted(cop)} contributors={sorted(con)}", sig)


# ---- file level -------------------------------------------------------------
WINDOW = 4096


@st.composite
def file_case(draw):
    eol = draw(st.sampled_from(["\n", "\n", "\r\n", "\r"]))
    head = draw(st.lists(tag_segment(False), min_size=0, max_size=2))
    edge = draw(st.sampled_from(["none", "in", "in", "out", "out"]))
    edge_seg = draw(tag_segment(False).filter(lambda s: len(s["lines"]) == 1)) if edge != "none" else None
    edge_pos = draw(st.integers(4090, 4096)) if edge == "in" else draw(st.integers(4096, 4100))
    tail = draw(st.lists(tag_segment(False), min_size=0, max_size=2))
    snippet = draw(st.sampled_from(["none", "none", "head", "tail", "straddle"]))
    if snippet == "straddle":
        edge, edge_seg = "none", None
    straddle = (draw(st.integers(1, 2)), draw(st.integers(1, 16)))
    bad = draw(st.sampled_from(["none", "none", "none", "head", "tail"]))
    where = draw(st.sampled_from(["file", "file", "dotlicense"]))
    nonascii_filler = draw(st.booleans())
    # a two-byte character whose bytes sit on either side of the 4096-byte cut
    split_char = edge == "none" and snippet != "straddle" and draw(st.booleans())
    # bytes 1100..3000 are not text at all (a payload appended to a script): the head of the file decides that it is a text file
    bintail = where == "file" and snippet != "straddle" and draw(st.integers(0, 3)) == 0
    # mixed conventions: the lines after the head of the file end differently (a CR header pasted over a CRLF body ...)
    eol_tail = draw(st.sampled_from([None, None, None, "\n", "\r\n", "\r"]))
    return {"eol_tail": eol_tail if eol_tail != eol else None, "bintail": bintail, "split_char": split_char, "eol": eol, "head": head, "edge": edge, "edge_seg": edge_seg, "edge_pos": edge_pos, "tail": tail,
            "snippet": snippet, "bad": bad, "where": where, "nonascii_filler": nonascii_filler, "straddle": straddle}


def build_file(c):
    """Return (bytes, tags_in_window, tags_outside, bad_in_window, bad_outside)."""
    eol = c["eol"]
    fill_char = "é" if c["nonascii_filler"] else "x"
    out = b""
    inside, outside = [], []
    bad_in = bad_out = False

    def add_line(line):
        nonlocal out
        out += (line + eol).encode("utf-8")

    if c["snippet"] == "head":
        add_line("# SPDX-SnippetBegin")
    if c["bad"] == "head":
        add_line("# SPDX-License-Identifier: MIT AND")
        bad_in = True
    for s in c["head"]:
        for ln in s["lines"]:
            add_line(ln)
        inside.append(s["tag"])
    # pad up to the boundary region
    def pad_to(n_bytes):
        nonlocal out
        # filler lines of <= 70 chars, last one sized exactly
        while len(out) < n_bytes:
            remaining = n_bytes - len(out)
            unit = len(fill_char.encode())
            eolb = len(eol.encode())
            if remaining > 80 + eolb:
                # mostly ASCII: a file of high-bit bytes only is taken for a
                # binary by the third-party binaryornot heuristic
                body = "x" * 56 + (fill_char * (4 // unit))
                out += (body + eol).encode()
            else:
                k = remaining - eolb
                if k < 0:
                    # cannot fit another line: lengthen the previous one (its EOL stays last, so the next tag starts a line)
                    e = eol.encode()
                    if out.endswith(e):
                        out = out[: -len(e)] + b"x" * remaining + e
                    else:
                        out += b"x" * remaining
                else:
                    out += ("x" * k + eol).encode()
        assert len(out) == n_bytes, (len(out), n_bytes)

    if c.get("eol_tail"):
        eol = c["eol_tail"]
    if c.get("bintail") and len(out) < 1000:
        import hashlib

        pad_to(1100)
        blob = b""
        k = 0
        while len(blob) < 1900:
            blob += hashlib.sha256(b"payload%d" % k).digest()
            k += 1
        # no line breaks inside the payload, and nothing that looks like a tag
        out += bytes(b if b not in (0x0A, 0x0D) else 0x01 for b in blob[:1900]) + eol.encode()
    if c["snippet"] == "straddle":
        # the marker text itself crosses a multiple of 4096 bytes
        k, r = c["straddle"]
        start = k * WINDOW - r - 2
        if start >= len(out):
            pad_to(start)
            add_line("# SPDX-SnippetBegin")
    if c["edge"] == "in":
        line = c["edge_seg"]["lines"][0]
        lb = len(line.encode("utf-8"))
        start = c["edge_pos"] - lb
        if start >= len(out):
            pad_to(start)
            out += line.encode("utf-8")
            assert len(out) == c["edge_pos"]
            out += eol.encode()
            inside.append(c["edge_seg"]["tag"])
    elif c["edge"] == "out":
        if c["edge_pos"] >= len(out):
            pad_to(c["edge_pos"])
            add_line(c["edge_seg"]["lines"][0])
            outside.append(c["edge_seg"]["tag"])
    if c.get("split_char") and len(out) < WINDOW - 1:
        pad_to(WINDOW - 1)
        out += "é".encode("utf-8") + eol.encode()
    if len(out) < WINDOW + 8:
        if c["tail"] or c["snippet"] == "tail" or c["bad"] == "tail" or c.get("split_char"):
            pad_to(WINDOW + 8)
    if len(out) >= WINDOW + 8:
        if c["snippet"] == "tail":
            add_line("// SPDX-SnippetBegin")
        if c["bad"] == "tail":
            add_line("# SPDX-License-Identifier: (MIT")
            bad_out = True
        for s in c["tail"]:
            for ln in s["lines"]:
                add_line(ln)
            outside.append(s["tag"])
    else:
        # everything fits in the window
        if c["snippet"] == "tail":
            add_line("// SPDX-SnippetBegin")
        if c["bad"] == "tail":
            add_line("# SPDX-License-Identifier: (MIT")
            bad_in = True
        for s in c["tail"]:
            for ln in s["lines"]:
                add_line(ln)
            inside.append(s["tag"])
    if not out:
        add_line("nothing to see")  # an empty file is not a covered file
    return out, inside, outside, bad_in, bad_out


def check_file(ctx, c):
    data, inside, outside, bad_in, bad_out = build_file(c)
    snippet = c["snippet"] != "none" and b"SPDX-SnippetBegin" in data
    scanned = inside + (outside if snippet else [])
    bad = bad_in or (bad_out and snippet)
    lic, cop, _con, _ = expected_of(scanned)
    if bad:
        lic, cop = set(), set()
    case = dict(c, data=data)  # the generated description (enough to rebuild the file) plus the bytes, for the reader
    d = ctx.fresh_dir()
    try:
        if c["where"] == "file":
            files = {"src/f.txt": data}
            rel, src, stype = "src/f.txt", "src/f.txt", "file-header"
        else:
            files = {"src/f.bin": b"\x00\x01binary\x00", "src/f.bin.license": data}
            rel, src, stype = "src/f.bin", "src/f.bin.license", "dot-license"
        tree.write_tree(d, files)
        res, rep = tree.lint_json(d)
        if rep is None:
            ctx.fail(case, f"lint --json failed: {res.brief()}")
        ent = tree.file_entry(rep, rel)
        if ent is None:
            ctx.fail(case, f"lint --json does not list {rel}")
        g_cop, g_lic = tree.entry_sets(ent)
        g_lic = {_norm_expr(x) for x in g_lic}
        alltags = inside + outside
        ctx.count(data, nontrivial=any(t["form"] != "bare" for t in alltags) and bool(alltags),
                  labels=[f"eol:{c['eol']!r}", f"split-char-at-4096:{bool(c.get('split_char'))}", f"edge:{c['edge']}", f"snippet:{snippet}", f"bad:{'scanned' if bad else 'unscanned' if (bad_in or bad_out) else 'none'}",
                          f"where:{c['where']}", f"outside-tags:{len(outside)}", f"binary-payload-after-1100:{bool(c.get('bintail'))}", f"mixed-eol:{bool(c.get('eol_tail'))}"],
                  sample={"eol": c["eol"], "edge": c["edge"], "edge_pos": c["edge_pos"], "snippet": c["snippet"], "bad": c["bad"], "where": c["where"],
                          "edge_line": c["edge_seg"]["lines"] if c["edge_seg"] else None, "size": len(data)})
        if (g_lic, g_cop) != (lic, cop):
            sig = signature_of(scanned, g_lic, g_cop, None)
            ctx.fail(case, f"lint reads licences={sorted(map(str, g_lic))} copyrights={sorted(g_cop)} for {rel}; expected licences={sorted(map(str, lic))} "
                           f"copyrights={sorted(cop)} (window 4096, snippet={snippet}, unparseable-scanned={bad}, eol={c['eol']!r})", sig)
        for item in ent["copyrights"] + ent["spdx_expressions"]:
            if item["source"] != src or item["source_type"] != stype:
                ctx.fail(case, f"item {item} should name source {src} / {stype}")
    finally:
        tree.rmtree(d)


def replay(ctx, case):
    if "text" in case:
        # function-level replay: re-derive expectations from the recorded tags
        from boolean.boolean import ParseError
        from license_expression import ExpressionError
        from reuse.extract import extract_reuse_info

        tags = [dict(t, trailing=False) for t in case["tags"]]
        lic, cop, con, bad = expected_of(tags)
        try:
            info = extract_reuse_info(case["text"])
        except (ExpressionError, ParseError):
            if not bad:
                ctx.fail(case, "a valid expression was rejected as unparseable", signature_of(tags, None, None, None))
            return
        got = (set(info.spdx_expressions), set(info.copyright_lines), set(info.contributor_lines))
        if bad:
            ctx.fail(case, f"unparseable expression but extract returned {got}")
        if got != (lic, cop, con):
            ctx.fail(case, f"read {got}, written {(lic, cop, con)}", signature_of(tags, *got))
    else:
        c = {k: v for k, v in case.items() if k != "data"}
        if c.get("head") and not isinstance(c["head"][0], dict):
            raise NotImplementedError("replay file written by an older version of this check (no tag description)")
        check_file(ctx, c)


def run(ctx):
    q = ctx.tier == "quick"
    hyp_run(ctx, "text", text_case(), lambda c: check_text(ctx, c), 2500 if q else 40000)
    hyp_run(ctx, "file", file_case(), lambda c: check_file(ctx, c), 120 if q else 1800)
