"""C12 — Ignore blocks hide exactly what they enclose.

Generator: token sequences over {START, END, licence tag, copyright tag,
contributor tag, word, newline, space}; all sequences up to a bound, random
longer ones; bare and wrapped in comment syntaxes.
Oracles: (1) differential through the public function:
``extract(text) == extract(ref_filter(text))`` with an independent scanner;
(2) by construction: tag tokens outside all spans are reported, none inside;
(3) the same through ``reuse lint --json`` on a one-file project.
"""

import itertools

from hypothesis import strategies as st

from vlib import Violation, fuzzing, tree
from vlib.core import hyp_run
from vlib.ref.ignoreblocks import END, START, ref_filter, spans

ID = "C12"
LEVEL = "exploration"
SHARDS = {"quick": 16, "thorough": 16}
RULE = (
    "Token sequences over {IgnoreStart, IgnoreEnd, licence tag, copyright tag, contributor tag, word, prose mentioning 'REUSE-Ignore…', "
    "newline, space}: ALL sequences of length <= 5 (quick) / <= 6 (thorough), plus Hypothesis-generated "
    "sequences up to length 30; each rendered bare and wrapped in '# ', '// ', C block and HTML comment "
    "syntax; a sample is also judged through `reuse lint --json`.  Oracle: extract(text) must equal "
    "extract(reference_filter(text)) (independent left-to-right scanner), and when every visible tag ends "
    "its line the result must equal the by-construction expected sets.  Non-trivial = sequence holds >= 1 "
    "marker and >= 1 tag token; distinct = distinct rendered text."
)
ASSUMPTIONS = [
    "reference scanner vlib/ref/ignoreblocks.py states the property (start..next end removed, stray end kept, no nesting)",
    "tag tokens carry unique values, so presence/absence in the result identifies each token",
]

S, E, L, C, P, W, N, B, R = "S", "E", "L", "C", "P", "W", "N", "B", "R"
# R: prose that merely mentions the markers' common prefix ("REUSE-IgnoreNextLine"); it is not a marker
ALPHABET = [S, E, L, C, P, W, N, B, R]
LIDS = ["MIT", "ISC", "0BSD", "Zlib", "curl", "X11", "WTFPL", "Unlicense", "Beerware", "NTP",
        "MIT-0", "BSL-1.0", "PostgreSQL", "Ruby", "Vim", "W3C", "ZPL-2.1", "xpp", "TCL", "Sendmail",
        "AFL-3.0", "AAL", "Artistic-2.0", "EUPL-1.2", "HPND", "ICU", "IJG", "Info-ZIP", "JSON", "Latex2e"]


def render(tokens):
    """Return (text, per-token info).  Token i of kind L/C/P gets a value
    unique to its position."""
    parts = []
    vals = []
    for i, t in enumerate(tokens):
        if t == S:
            parts.append(START)
            vals.append(None)
        elif t == E:
            parts.append(END)
            vals.append(None)
        elif t == L:
            v = LIDS[i % len(LIDS)]
            parts.append(f"SPDX-License-Identifier: {v}")
            vals.append(v)
        elif t == C:
            v = f"SPDX-FileCopyrightText: 20{i % 100:02d} Holder{i}"
            parts.append(v)
            vals.append(v)
        elif t == P:
            v = f"Person{i}"
            parts.append(f"SPDX-FileContributor: {v}")
            vals.append(v)
        elif t == W:
            parts.append("word")
            vals.append(None)
        elif t == R:
            parts.append("REUSE-IgnoreNextLine")
            vals.append(None)
        elif t == N:
            parts.append("\n")
            vals.append(None)
        elif t == B:
            parts.append(" ")
            vals.append(None)
    return "".join(parts), vals


def expected_by_construction(tokens, vals):
    """Expected (licences, copyrights, contributors) or None when some visible
    tag does not end its (filtered) line, in which case only the differential
    oracle applies."""
    hidden = spans(tokens, S, E)
    visible = [(t, v) for t, v, h in zip(tokens, vals, hidden) if not h]
    lines = [[]]
    for t, v in visible:
        if t == N:
            lines.append([])
        else:
            lines[-1].append((t, v))
    lic, cop, con = set(), set(), set()
    for line in lines:
        tags = [i for i, (t, _v) in enumerate(line) if t in (L, C, P)]
        if not tags:
            continue
        if len(tags) > 1:
            return None
        k = tags[0]
        if any(t != B for t, _v in line[k + 1:]):
            return None
        if any(t == R for t, _v in line[:k]) and line[k][0] == L:
            pass  # prose before a licence tag is part of the prefix: fine
        t, v = line[k]
        (lic if t == L else cop if t == C else con).add(v)
    return lic, cop, con


WRAPS = {
    "bare": lambda text: text,
    "hash": lambda text: "\n".join("# " + ln for ln in text.split("\n")),
    "slashes": lambda text: "\n".join("// " + ln for ln in text.split("\n")),
    "cblock": lambda text: "/*\n" + "\n".join(" * " + ln for ln in text.split("\n")) + "\n */\n",
    "html": lambda text: "<!--\n" + text + "\n-->\n",
}


def _extract(text):
    from boolean.boolean import ParseError
    from license_expression import ExpressionError
    from reuse.extract import extract_reuse_info

    try:
        info = extract_reuse_info(text)
    except (ExpressionError, ParseError) as e:
        return ("error", type(e).__name__)
    return (
        "ok",
        sorted(str(x) for x in info.spdx_expressions),
        sorted(info.copyright_lines),
        sorted(info.contributor_lines),
    )


def check_tokens(ctx, tokens, wrap="bare", via_lint=False):
    tokens = list(tokens)
    text0, vals = render(tokens)
    text = WRAPS[wrap](text0)
    case = {"tokens": "".join(tokens), "wrap": wrap, "text": text, "via_lint": via_lint}
    nmark = sum(t in (S, E) for t in tokens)
    ntag = sum(t in (L, C, P) for t in tokens)
    labels = [f"wrap:{wrap}"]
    if tokens and tokens[0] == S and wrap == "bare":
        labels.append("start-at-offset-0")
    if any(a in (S, E) and b in (S, E) for a, b in zip(tokens, tokens[1:])):
        labels.append("adjacent-markers")
    hidden = spans(tokens, S, E)
    if any(t == E and not h for t, h in zip(tokens, hidden)):
        labels.append("stray-end")
    if hidden and hidden[-1] and (tokens[-1] != E):
        labels.append("unterminated-start")
    if sum(1 for i, t in enumerate(tokens) if t == S and (i == 0 or not hidden[i - 1] or tokens[i - 1] == E)) >= 2:
        labels.append("two-or-more-blocks")
    ctx.count(text, nontrivial=bool(nmark and ntag), labels=labels, sample=case)

    got = _extract(text)
    want = _extract(ref_filter(text))
    if got != want:
        ctx.fail(case, f"extract(text)={got!r} but extract(reference_filter(text))={want!r}")
    exp = expected_by_construction(tokens, vals)
    if exp is not None:
        ctx.label("by-construction-applies")
        lic, cop, con = exp
        want2 = ("ok", sorted(lic), sorted(cop), sorted(con))
        if got != want2:
            ctx.fail(case, f"extract(text)={got!r}, expected by construction {want2!r}")
        if via_lint and (lic or cop) and len(text.encode()) < 4000:
            d = ctx.fresh_dir()
            try:
                # the same text as a file of its own, shadowed by a sibling, and AS the sibling of another file
                tree.write_tree(d, {"f.txt": text, "g.txt": text, "g.txt.license": "SPDX-License-Identifier: MIT\n", "h.bin": b"\x00\x01binary\x00", "h.bin.license": text,
                                   "k.txt": "plain\n", "k.txt.license": text})
                res, data = tree.lint_json(d)
                if data is None:
                    ctx.fail(case, f"lint --json did not produce a report: {res.brief()}")
                ent = tree.file_entry(data, "f.txt")
                if ent is None:
                    ctx.fail(case, "lint --json does not list f.txt")
                gc, ge = tree.entry_sets(ent)
                if gc != cop or ge != lic:
                    ctx.fail(case, f"lint --json attributes {sorted(gc)} / {sorted(ge)} to the file, expected {sorted(cop)} / {sorted(lic)}")
                for sib in ("h.bin", "k.txt"):
                    ent = tree.file_entry(data, sib)
                    if ent is None:
                        ctx.fail(case, f"lint --json does not list {sib}")
                    gc, ge = tree.entry_sets(ent)
                    if gc != cop or ge != lic:
                        ctx.fail(case, f"lint --json attributes {sorted(gc)} / {sorted(ge)} to {sib} (text in {sib}.license), expected {sorted(cop)} / {sorted(lic)}")
                ctx.label("via-lint")
            finally:
                tree.rmtree(d)


# ---- big files: the whole file is scanned when it holds a snippet marker; blocks may span many KiB
@st.composite
def bigfile_case(draw):
    segs = []
    k = 0
    for _ in range(draw(st.integers(1, 4))):
        segs.append(("fill", draw(st.integers(0, 120))))
        kind = draw(st.sampled_from(["block", "block", "open", "visible", "stray-end"]))
        if kind in ("block", "open"):
            inner = []
            for _ in range(draw(st.integers(1, 3))):
                inner.append(("fill", draw(st.integers(0, 120))))
                k += 1
                inner.append(("tag", k, draw(st.sampled_from(["lic", "cop"]))))
            inner.append(("fill", draw(st.integers(0, 60))))
            segs.append((kind, inner))
            if kind == "open":
                break
        elif kind == "visible":
            k += 1
            segs.append(("tag", k, draw(st.sampled_from(["lic", "cop"]))))
        else:
            segs.append(("end",))
    k += 1
    if not segs or segs[-1][0] != "open":
        segs.append(("fill", draw(st.integers(0, 40))))
        segs.append(("tag", k, "lic"))
    return {"segs": segs, "snippet": draw(st.sampled_from(["top", "top", "bottom", "none"])), "eol": draw(st.sampled_from(["\n", "\n", "\r\n"])),
            # an unparseable expression outside every block: the file then contributes nothing at all — in particular nothing from inside a block
            "bad": draw(st.integers(0, 3)) == 0,
            # the markers stand at the end of very long lines (minified code with a trailing comment)
            "longline": draw(st.sampled_from([0, 0, 0, 1100, 2600]))}


def check_bigfile(ctx, c):
    lines = []
    vis_lic, vis_cop = set(), set()
    hidden = 0

    def tagline(k, kind, visible):
        nonlocal hidden
        if kind == "lic":
            v = LIDS[k % len(LIDS)] if visible else f"LicenseRef-hidden{k}"
            if visible:
                vis_lic.add(v)
            else:
                hidden += 1
            return f"# SPDX-License-Identifier: {v}"
        v = f"SPDX-FileCopyrightText: 20{k % 100:02d} {'Visible' if visible else 'Hidden'}{k}"
        if visible:
            vis_cop.add(v)
        else:
            hidden += 1
        return "# " + v

    lead = ("var a=[" + "1," * (c.get("longline", 0) // 2) + "0]; ") if c.get("longline") else ""
    if c["snippet"] == "top":
        lines.append("# SPDX-SnippetBegin")
    if c.get("bad"):
        lines.append("# SPDX-License-Identifier: (MIT OR")
    for seg in c["segs"]:
        if seg[0] == "fill":
            lines += ["x" * 62] * seg[1]
        elif seg[0] == "tag":
            lines.append(tagline(seg[1], seg[2], True))
        elif seg[0] == "end":
            lines.append(lead + "# " + END + " (stray)")
        else:
            lines.append(lead + "# " + START)
            for s2 in seg[1]:
                if s2[0] == "fill":
                    lines += ["y" * 62] * s2[1]
                else:
                    lines.append(tagline(s2[1], s2[2], False))
            if seg[0] == "block":
                lines.append(lead + "# " + END)
    if c["snippet"] == "bottom":
        lines.append("# SPDX-SnippetBegin")
    text = c["eol"].join(lines) + c["eol"]
    data = text.encode()
    whole = c["snippet"] != "none"
    case = dict(c, size=len(data))
    # expected: what an independent scan of the scanned part yields
    scanned = data if whole else data[:4096]
    ref = ref_filter(scanned.decode("utf-8", "replace").replace("\r\n", "\n").replace("\r", "\n"))
    exp_lic = {v for v in vis_lic if f"SPDX-License-Identifier: {v}\n" in ref or ref.endswith(f"SPDX-License-Identifier: {v}")}
    exp_cop = {v for v in vis_cop if v + "\n" in ref or ref.endswith(v)}
    if c.get("bad"):
        exp_lic, exp_cop = set(), set()
    if not whole and len(data) > 4096 and not scanned.endswith((b"\n", b"\r")):
        last = scanned.replace(b"\r", b"\n").rsplit(b"\n", 1)[-1]
        if b"SPDX-" in last or b"REUSE-" in last:
            # a tag or marker line is cut in two by the 4096-byte window: what the cut-off piece means is not stated
            ctx.excluded["tag-or-marker-line-straddles-the-window"] += 1
            return
    if "hidden" in ref.lower():
        from vlib import HarnessError

        raise HarnessError("reference scan kept a hidden tag")
    d = ctx.fresh_dir()
    try:
        tree.write_tree(d, {"big.py": data})
        res, rep = tree.lint_json(d)
        if rep is None:
            ctx.fail(case, f"lint --json failed: {res.brief()}")
        ent = tree.file_entry(rep, "big.py")
        if ent is None:
            if not res.out or "big.py" in str(rep["non_compliant"]["read_errors"]):
                ctx.fail(case, f"big.py became a read error: {res.err[-300:]}")
            ctx.fail(case, "lint --json does not list big.py")
        gc, ge = tree.entry_sets(ent)
        ctx.count(data, nontrivial=hidden > 0 and (len(data) > 4096 or bool(c.get("longline"))),
                  labels=["bigfile", f"bigfile:snippet={c['snippet']}", f"bigfile:kb={min(len(data) // 4096, 8)}", f"bigfile:markers-after-column={c.get('longline', 0)}"],
                  sample={"size": len(data), "snippet": c["snippet"], "segments": [s3[0] for s3 in c["segs"]]})
        if gc != exp_cop or ge != exp_lic:
            leaked = {x for x in gc | ge if "idden" in x}
            ctx.fail(case, f"{len(data)}-byte file (snippet marker: {c['snippet']}): lint reads copyrights={sorted(gc)} licences={sorted(ge)}, expected {sorted(exp_cop)} / {sorted(exp_lic)}"
                     + (f"; information from inside an ignore block leaked: {sorted(leaked)}" if leaked else ""))
    finally:
        tree.rmtree(d)


def replay(ctx, case):
    if "fuzz" in case:
        return fuzzing.replay(ctx, case)
    if "segs" in case:
        def tup(x):
            return tuple(tup(y) if isinstance(y, list) else y for y in x)

        case = dict(case, segs=[tup(s) for s in case["segs"]])
        case.pop("size", None)
        check_bigfile(ctx, case)
        return
    check_tokens(ctx, list(case["tokens"]), case.get("wrap", "bare"), case.get("via_lint", False))


def run(ctx):
    maxlen = 5 if ctx.tier == "quick" else 6
    idx = 0
    wraps = list(WRAPS)
    for n in range(0, maxlen + 1):
        for tokens in itertools.product(ALPHABET, repeat=n):
            idx += 1
            if idx % ctx.nshards != ctx.shard:
                continue
            check_tokens(ctx, tokens, "bare")
            # every sequence also in one comment syntax, chosen by position
            check_tokens(ctx, tokens, wraps[1 + (idx // ctx.nshards) % (len(wraps) - 1)])
    ctx.extra["exhaustive_subspaces"] = [f"all token sequences of length <= {maxlen} over 9 tokens ({sum(9**k for k in range(maxlen + 1))}), bare and in one comment syntax each"]
    ctx.extra["exhaustive"] = True

    tok = st.sampled_from(ALPHABET)
    # weight markers and tags up for the long random sequences
    heavy = st.sampled_from([S, S, E, E, L, C, P, W, N, N, B, R])
    strat = st.tuples(
        st.lists(st.one_of(tok, heavy), min_size=6, max_size=30),
        st.sampled_from(wraps),
    )
    n_random = 2500 if ctx.tier == "quick" else 40000
    hyp_run(ctx, "random", strat, lambda c: check_tokens(ctx, c[0], c[1]), n_random)
    n_lint = 40 if ctx.tier == "quick" else 600
    strat2 = st.tuples(st.lists(heavy, min_size=1, max_size=14), st.sampled_from(wraps))
    hyp_run(ctx, "lint", strat2, lambda c: check_tokens(ctx, c[0], c[1], via_lint=True), n_lint)
    hyp_run(ctx, "bigfile", bigfile_case(), lambda c: check_bigfile(ctx, c), 40 if ctx.tier == "quick" else 800)
    # coverage-guided stage (atheris): arbitrary text, same oracle extract(text) == extract(reference_filter(text))
    fuzzing.run_stage(ctx, "ignore", 4000 if ctx.tier == "quick" else 300000, max_len=300)
