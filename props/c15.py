"""C15 — Commands touch only what they are documented to touch.

Rule-based state machine over a generated tree (C03's generator: rule-
straddling names, symlinks to files / directories / nowhere / a sentinel
directory OUTSIDE the project, LICENSES/, .reuse/, optional Git layer with
ignored files) plus read-only (0444) files and an optional dep5 or REUSE.toml.
Rules are sub-command invocations.  Invariant after every step: the content +
metadata snapshot delta of the project is within what the command is
documented to touch, and the outside sentinel never changes.
"""

import hashlib
import os
import stat

import hypothesis
from hypothesis import HealthCheck, Phase, settings
from hypothesis import strategies as st
from hypothesis.stateful import RuleBasedStateMachine, initialize, precondition, rule, run_state_machine_as_test

from vlib import Violation
from vlib import cli, tree
from vlib.core import derive_seed
from vlib.gen import trees as GT
from vlib.netstub import Stub
from vlib.ref import covered as RC

ID = "C15"
LEVEL = "exploration"
RULE = (
    "Histories of 1..7 commands on a generated tree (3..20 nodes: names on both sides of the exclusion rules, empty / binary files, symlinks to files, "
    "directories, nowhere and into a sentinel directory outside the project, LICENSES/, .reuse/, .hg, subprojects; half of them Git repositories with "
    "ignore rules; some files 0444; optional valid .reuse/dep5 or REUSE.toml; optional pre-existing empty LICENSES/ and output directories; optional FILE.license / LICENSES/LicenseRef-verif.txt / REUSE.toml symlinks into the sentinel directory, existing or dangling).  Commands: lint (4 formats, pool on/off), lint-file, spdx [-o], "
    "supported-licenses, --help, --version, annotate FILES / -r DIRS (dot-license options, styles), --root DIR annotate -r DIR (DIR a sub-directory, e.g. of a Git work tree), convert-dep5, download (LicenseRef- locally, SPDX "
    "ids via a loopback stub, -o).  Invariant per step: snapshot (type, size, mode, mtime_ns, sha1, link target) delta is empty for the read-only "
    "commands and for every exit-2 invocation, {-o file} for spdx, named regular files / covered files below named directories and their .license "
    "siblings for annotate, {-dep5, +REUSE.toml} for convert-dep5, new LICENSES/<id>.txt or -o for download; the outside sentinel is always unchanged.  "
    "Non-trivial = history with >= 1 mutating and >= 1 read-only command on a tree with a symlink or an ignored file; distinct by history."
)
ASSUMPTIONS = [
    "covered files below a directory = vlib/ref/covered.py + git check-ignore (as in C03)",
    "annotate is given regular files or directories, never a symlink (whether a named symlink stands for its target is not stated); a FILE.license that is a symlink must not be written through",
    "the sandbox runs as root: permission bits are only checked for preservation",
]

CTX = None
STUB = None


def snapshot(root):
    snap = {}
    for dirpath, dirnames, filenames in os.walk(root):
        if os.path.relpath(dirpath, root) == ".git" or os.path.relpath(dirpath, root).startswith(".git/"):
            dirnames[:] = []
            continue
        # Git's own metadata (of the project and of any submodule) is not part of the snapshot: `git status` refreshes the index
        if ".git" in dirnames and os.path.isdir(os.path.join(dirpath, ".git")):
            dirnames.remove(".git")
        for n in dirnames + filenames:
            p = os.path.join(dirpath, n)
            r = os.path.relpath(p, root)
            s = os.lstat(p)
            if stat.S_ISLNK(s.st_mode):
                snap[r] = ("l", os.readlink(p))
            elif stat.S_ISDIR(s.st_mode):
                snap[r] = ("d", stat.S_IMODE(s.st_mode))
            elif not stat.S_ISREG(s.st_mode):
                snap[r] = ("s", stat.S_IFMT(s.st_mode), stat.S_IMODE(s.st_mode))
            else:
                with open(p, "rb") as fp:
                    snap[r] = ("f", s.st_size, stat.S_IMODE(s.st_mode), s.st_mtime_ns, hashlib.sha1(fp.read()).hexdigest())
    return snap


def covered_files(root, has_git, submods=(), include_meson=False, include_submodules=False):
    paths = GT.all_paths(root)
    rels = [p for p, _k, _s in paths]
    ignored = GT.git_ignored(root, rels) if has_git else set()
    cov, unspec = set(), set()
    for p, kind, size in paths:
        in_sub = any(p == sm or p.startswith(sm + "/") for sm in submods)
        if in_sub and include_submodules:
            # an included submodule: which ignore rules hold inside it is not stated (the superproject's do not apply, the submodule's own
            # are unspecified); its files may be touched, none has to be
            v, _w = RC.classify(p, kind, size, include_meson=include_meson)
            if v != RC.EXCLUDED:
                unspec.add(p)
            continue
        v, _w = RC.classify(p, kind, size, vcs_ignored=p in ignored, in_submodule=in_sub, include_meson=include_meson)
        if v == RC.COVERED and not RC.is_cal_shl(p.rsplit("/", 1)[-1]):
            cov.add(p)
        elif v != RC.EXCLUDED:
            unspec.add(p)
    return cov, unspec


def cmd_of(args):
    """The sub-command of an invocation (global options and their values skipped)."""
    known = ("lint", "lint-file", "spdx", "supported-licenses", "annotate", "convert-dep5", "download")
    for a in args:
        if a in known:
            return ("--root DIR " + a) if args[0] == "--root" else a
    return args[0]


class Machine(RuleBasedStateMachine):
    def __init__(self):
        super().__init__()
        self.ctx = CTX
        self.base = None
        self.history = []
        self.mutating = 0
        self.readonly = 0

    @initialize(spec=GT.tree_spec(max_nodes=20), glob=st.sampled_from(["none", "none", "dep5", "toml"]), ro=st.lists(st.integers(0, 30), max_size=3),
                empty_dirs=st.lists(st.sampled_from(["LICENSES", "emptyout"]), max_size=2, unique=True),
                links=st.lists(st.tuples(st.sampled_from(["sibling-existing", "sibling-dangling", "licence-dangling", "toml-dangling"]), st.integers(0, 30)), max_size=2))
    def setup(self, spec, glob, ro, empty_dirs=(), links=()):
        self.base = self.ctx.fresh_dir()
        self.root = self.base / "proj"
        self.root.mkdir()
        self.sentinel = self.base / "outside-sentinel"
        tree.write_tree(self.sentinel, {"file": "sentinel content\n", "dir/inner.py": "print('outside')\n", "x.py.license": "SPDX-License-Identifier: MIT\n",
                                        "LicenseRef-verif.txt": "custom text from the source directory\n"})
        self.submods = list(spec["git"]["submodules"]) if spec["git"] else []
        nodes = dict(spec["nodes"])
        # no nested REUSE.toml / dep5 surprises: exactly one global licensing file, valid
        nodes = {p: v for p, v in nodes.items() if p.rsplit("/", 1)[-1] != "REUSE.toml" and not p.startswith(".reuse/dep5")}
        if glob == "dep5":
            nodes[".reuse/dep5"] = ("text", b"Format: https://www.debian.org/doc/packaging-manuals/copyright-format/1.0/\n\nFiles: src/*\nCopyright: 2020 Jane\nLicense: MIT\n")
        elif glob == "toml":
            nodes["REUSE.toml"] = ("text", b'version = 1\n[[annotations]]\npath = "src/**"\nSPDX-FileCopyrightText = "2020 Jane"\nSPDX-License-Identifier = "MIT"\n')
        # a sibling whose name merely begins like an existing directory's (src / src-old): not below it
        tops = sorted({p.split("/")[0] for p, v in nodes.items() if "/" in p and v[0] == "text" and p.split("/")[0] not in ("LICENSES", ".reuse", "subprojects") and not p.startswith(".")})
        if tops and len(ro) % 2 == 0:
            nodes.setdefault(tops[0] + "-old/sibling.py", ("text", b"x = 1\n"))
            nodes.setdefault(tops[0] + "2.py", ("text", b"x = 1\n"))
        spec["nodes"] = nodes
        if spec["git"]:
            # (a submodule whose only files were just filtered out is no directory any more)
            keep = [sm for sm in spec["git"]["submodules"] if any(p.startswith(sm + "/") and v[0] in ("text", "binary") for p, v in nodes.items())]
            spec = dict(spec, git=dict(spec["git"], submodules=keep))
            self.submods = keep
        self.has_git = bool(spec["git"])
        self.glob = glob
        GT.materialise(self.root, spec)
        # pre-existing empty directories (a failed download must leave them alone)
        for dname in empty_dirs:
            if not os.path.lexists(self.root / dname):
                os.mkdir(self.root / dname)
        files = sorted(p for p, v in nodes.items() if v[0] in ("text", "binary"))
        # symbolic links where the commands write: FILE.license pointing at a file (or at nothing) outside the project,
        # LICENSES/LicenseRef-verif.txt pointing at nothing outside the project
        for what, i in links:
            if what == "toml-dangling":
                # next to a dep5: REUSE.toml as a symbolic link to nothing, outside the project (convert-dep5 must not write through it)
                if glob == "dep5" and not os.path.lexists(self.root / "REUSE.toml"):
                    os.symlink(str(self.sentinel / "written-through-link.toml"), self.root / "REUSE.toml")
            elif what == "licence-dangling":
                lp = self.root / "LICENSES" / "LicenseRef-verif.txt"
                if os.path.isdir(self.root / "LICENSES") and not os.path.lexists(lp):
                    os.symlink(str(self.sentinel / "created-through-link.txt"), lp)
            elif files:
                f = files[i % len(files)]
                lp = self.root / (f + ".license")
                if not f.endswith(".license") and not os.path.lexists(lp) and not os.path.islink(self.root / f):
                    os.symlink(str(self.sentinel / ("x.py.license" if what == "sibling-existing" else "dangling.license")), lp)
        for i in ro:
            if files:
                os.chmod(self.root / files[i % len(files)], 0o444)
        self.has_link = any(v[0] == "symlink" for v in nodes.values())
        self.has_ignored = bool(spec["git"] and spec["git"]["ignore"])
        self.history.append({"nodes": nodes, "git": spec["git"], "glob": glob, "readonly": ro, "empty_dirs": list(empty_dirs), "links": [list(x) for x in links]})
        self.sent0 = snapshot(self.sentinel)

    # ---- helpers
    def _regular_files(self):
        return sorted(p for p, k, _s in GT.all_paths(self.root) if k == "file" and not p.endswith(".license") or False)

    def _dirs(self):
        out = set()
        for p, _k, _s in GT.all_paths(self.root):
            parts = p.split("/")
            for i in range(1, len(parts)):
                d = "/".join(parts[:i])
                if not os.path.islink(self.root / d):
                    out.add(d)
        return sorted(out)

    def _run(self, args, allowed_fn, kind, cwd=None, plan=None, signature=""):
        before = snapshot(self.root)
        if plan is not None:
            with STUB.active(plan):
                res = cli.run(args, cwd or self.root)
        else:
            res = cli.run(args, cwd or self.root)
        after = snapshot(self.root)
        step = {"args": [str(a) for a in args], "exit": res.code, "kind": kind, "cwd": os.path.relpath(cwd or self.root, self.base)}
        self.history.append(step)
        case = {"history": self.history}
        if snapshot(self.sentinel) != self.sent0:
            raise Violation(case, f"`reuse {' '.join(map(str, args))}` changed the sentinel directory outside the project")
        delta = {p for p in set(before) | set(after) if before.get(p) != after.get(p)}
        if res.crash is not None:
            self.ctx.label("crash-left-to-C16")
            return res, delta
        allowed = set() if res.code == 2 else allowed_fn(before)
        extra = {p for p in delta if p not in allowed and not (after.get(p, ("",))[0] == "d" and before.get(p) is None and any(a.startswith(p + "/") for a in allowed))}
        if args and "download" in [str(a) for a in args]:
            # a new (empty) directory below LICENSES/ is not a file; the statement speaks of files
            extra = {p for p in extra if not (p.startswith("LICENSES/") and after.get(p, ("",))[0] == "d" and before.get(p) is None)}
        if extra:
            detail = {p: (before.get(p), after.get(p)) for p in sorted(extra)[:4]}
            # (a listed known finding is counted and the history goes on; anything else raises)
            self.ctx.fail(case, f"`reuse {' '.join(map(str, args))}` (exit {res.code}) touched {sorted(extra)} — allowed for this command: {sorted(allowed)[:12]}; before/after {detail}", signature)
        if kind == "ro":
            self.readonly += 1
        elif delta:
            self.mutating += 1
        return res, delta

    # ---- read-only commands
    @precondition(lambda self: self.base is not None and len(self.history) <= 7)
    @rule(fmt=st.sampled_from([[], ["--json"], ["--plain"], ["--lines"], ["--quiet"]]), mp=st.booleans(), flags=st.sampled_from([[], ["--include-submodules"], ["--include-meson-subprojects"]]))
    def lint(self, fmt, mp, flags):
        self._run([*flags, *([] if mp else ["--no-multiprocessing"]), "lint", *fmt], lambda b: set(), "ro")

    @precondition(lambda self: self.base is not None and len(self.history) <= 7)
    @rule(picks=st.lists(st.integers(0, 100), min_size=1, max_size=4), quiet=st.booleans())
    def lint_file(self, picks, quiet):
        files = [p for p, k, _s in GT.all_paths(self.root) if os.path.exists(self.root / p) and (self.root / p).resolve().is_relative_to(self.root.resolve())]
        if not files:
            return
        chosen = sorted({files[i % len(files)] for i in picks})
        self._run(["--no-multiprocessing", "lint-file", *(["--quiet"] if quiet else []), "--", *chosen], lambda b: set(), "ro")

    @precondition(lambda self: self.base is not None and len(self.history) <= 7)
    @rule(out=st.sampled_from([None, None, "bom.spdx", "bom.spdx", "docs-out.spdx.json"]), concluded=st.booleans(), creator=st.sampled_from([True, True, False]))
    def spdx(self, out, concluded, creator=True):
        args = ["--no-multiprocessing", "spdx"]
        if concluded:
            # (without a creator the command is refused: exit 2, and then nothing may be touched, the -o file included)
            args += ["--add-license-concluded"] + (["--creator-person", "V"] if creator else [])
        if out:
            args += ["-o", out]
        self._run(args, lambda b: {out} if out else set(), "ro" if not out else "mut")

    @precondition(lambda self: self.base is not None and len(self.history) <= 7)
    @rule(which=st.sampled_from([["supported-licenses"], ["--help"], ["--version"], ["lint", "--help"], ["annotate", "--help"], ["download", "--help"]]))
    def info(self, which):
        self._run(which, lambda b: set(), "ro")

    # ---- annotate
    @precondition(lambda self: self.base is not None and len(self.history) <= 7)
    @rule(picks=st.lists(st.integers(0, 100), min_size=1, max_size=3), dot=st.sampled_from([None, "--force-dot-license", "--fallback-dot-license", "--skip-unrecognised"]),
          style=st.sampled_from([None, None, "python", "c"]), merge=st.booleans())
    def annotate_files(self, picks, dot, style, merge):
        files = [p for p in self._regular_files() if not p.startswith((".reuse/", "LICENSES/")) or True]
        if not files:
            return
        chosen = sorted({files[i % len(files)] for i in picks})
        args = ["annotate", "--copyright", "Verif", "--license", "MIT", "--year", "2020"]
        if dot and not (dot == "--skip-unrecognised" and style):
            args.append(dot)
        if style:
            args += ["--style", style]
        if merge:
            args.append("--merge-copyrights")
        args += ["--", *chosen]
        # a FILE.license that is a symbolic link is never written through (the file itself may get the header instead)
        self._run(args, lambda b: {x for p in chosen for x in ((p, p + ".license") if not os.path.islink(self.root / (p + ".license")) else (p,))}, "mut")

    @precondition(lambda self: self.base is not None and len(self.history) <= 7)
    @rule(picks=st.lists(st.integers(0, 100), min_size=1, max_size=2), dot=st.sampled_from(["--fallback-dot-license", "--skip-unrecognised", "--force-dot-license"]),
          where=st.sampled_from(["root", "root", "subdir", "subdir", "outside"]), wpick=st.integers(0, 100),
          include=st.sampled_from([(), (), ("--include-meson-subprojects",), ("--include-submodules",), ("--include-submodules", "--include-meson-subprojects")]))
    def annotate_recursive(self, picks, dot, where="root", wpick=0, include=()):
        dirs = self._dirs() + ["."]
        chosen = sorted({dirs[i % len(dirs)] for i in picks})
        # started in the root, in a sub-directory of the project (paths relative to it), or elsewhere with --root
        cwd, pre = self.root, []
        inner = [d for d in self._dirs() if not d.startswith(".git") and not any(d == sm or d.startswith(sm + "/") for sm in self.submods) and os.path.isdir(self.root / d)]
        if where == "subdir" and inner:
            cwd = self.root / inner[wpick % len(inner)]
            if not self.has_git or wpick % 2:
                pre = ["--root", os.path.relpath(self.root, cwd)]
        elif where == "outside":
            cwd, pre = self.base, ["--root", "proj"]
        self.ctx.label(f"annotate -r: started in {where if cwd != self.root else 'root'}" + (" (submodule present)" if self.submods else ""))
        named = [os.path.relpath(self.root / d, cwd) for d in chosen]
        cov, unspec = covered_files(self.root, self.has_git, self.submods, include_meson="--include-meson-subprojects" in include, include_submodules="--include-submodules" in include)

        def below(p):
            return any(d == "." or p.startswith(d + "/") for d in chosen)

        def allowed(before):
            out = set()
            for p in cov | unspec:
                if below(p):
                    out |= {p, p + ".license"} if not os.path.islink(self.root / (p + ".license")) else {p}
            return out

        self._run([*pre, *include, "annotate", "--copyright", "Verif", "--license", "MIT", "--year", "2020", dot, "-r", "--", *named], allowed, "mut", cwd=cwd)

    @precondition(lambda self: self.base is not None and len(self.history) <= 7)
    @rule(pick=st.integers(0, 100), dot=st.sampled_from(["--fallback-dot-license", "--skip-unrecognised", "--force-dot-license"]))
    def annotate_recursive_subroot(self, pick, dot):
        """`--root DIR annotate -r DIR` from the top of the tree: DIR is the project root now, but the ignore rules of the
        enclosing Git repository still hold."""
        dirs = [d for d in self._dirs() if not d.startswith((".git", ".hg")) and "/.git" not in d]
        # (not a directory inside, equal to or above a submodule: what a root below the top of the work tree knows of the top-level .gitmodules is not stated)
        dirs = [d for d in dirs if not any(d == sm or d.startswith(sm + "/") or sm.startswith(d + "/") for sm in self.submods)]
        if not dirs:
            return
        d = dirs[pick % len(dirs)]
        cov, unspec = covered_files(self.root, self.has_git, self.submods)
        # classification relative to DIR as the root (LICENSES/, .reuse/ ... directly below it); either reading is allowed
        sub = GT.all_paths(self.root / d)
        ignored = GT.git_ignored(self.root, [f"{d}/{p}" for p, _k, _s in sub]) if self.has_git else set()
        loose = set()
        for p, kind, size in sub:
            v, _w = RC.classify(p, kind, size, vcs_ignored=f"{d}/{p}" in ignored)
            if v != RC.EXCLUDED:
                loose.add(f"{d}/{p}")
        all_ignored = GT.git_ignored(self.root, sorted(cov | unspec | loose)) if self.has_git else set()

        def allowed(before):
            out = set()
            for p in (cov | unspec | loose) - all_ignored:
                if p.startswith(d + "/"):
                    out |= {p, p + ".license"} if not os.path.islink(self.root / (p + ".license")) else {p}
            return out

        self.ctx.label("annotate:--root-subdir")
        # recorded finding: a root that sits inside a directory Git ignores as a whole
        chain = [d.rsplit("/", k)[0] for k in range(d.count("/"), -1, -1)] if self.has_git else []
        whole = bool(self.has_git and GT.git_ignored(self.root, chain))
        self._run(["--root", d, "annotate", "--copyright", "Verif", "--license", "MIT", "--year", "2020", dot, "-r", "--", d], allowed, "mut",
                  signature="root-inside-ignored-directory" if whole else "")

    # ---- convert-dep5
    @precondition(lambda self: self.base is not None and len(self.history) <= 7)
    @rule(wpick=st.integers(0, 100))
    def convert(self, wpick=0):
        # in a Git work tree the command finds the root from any directory below it: REUSE.toml belongs in the root all the same
        cwd = None
        inner = [d for d in self._dirs() if not d.startswith(".git") and "/.git" not in d and not any(d == sm or d.startswith(sm + "/") for sm in self.submods) and os.path.isdir(self.root / d)]
        if self.has_git and inner and wpick % 2:
            cwd = self.root / inner[wpick % len(inner)]
            self.ctx.label("convert-dep5: started in a sub-directory")
        self._run(["convert-dep5"], lambda b: {".reuse/dep5", "REUSE.toml"} if ".reuse/dep5" in b and "REUSE.toml" not in b else set(), "mut", cwd=cwd)

    # ---- download
    @precondition(lambda self: self.base is not None and len(self.history) <= 7)
    @rule(ids=st.lists(st.sampled_from(["MIT", "ISC", "LicenseRef-verif", "GPL-2.0+", "nope", "../LicenseRef-up", "../../outside-sentinel/LicenseRef-out", "src/LicenseRef-sub"]),
                       min_size=1, max_size=3, unique=True), all_=st.integers(0, 3),
          out=st.sampled_from([None, None, None, "downloaded.txt", "existing", "emptyout/lic.txt"]), plan=st.sampled_from(["ok", "ok", "404", "reset"]),
          source=st.sampled_from([None, None, "file", "dir"]))
    def download(self, ids, all_, out, plan, source):
        args = ["download"]
        if out == "existing":
            # an -o path that already exists must never be replaced
            files = self._regular_files()
            out = files[0] if files else "downloaded.txt"
        if out == "emptyout/lic.txt" and not os.path.isdir(self.root / "emptyout"):
            out = "downloaded.txt"
        if source:
            args += ["--source", str(self.sentinel / "LicenseRef-verif.txt") if source == "file" else str(self.sentinel)]
        if all_ == 0:
            args.append("--all")
            ids = []
        elif out:
            ids = ids[:1]
            args += ["-o", out]
        args += ids
        netplan = {i: (("ok", f"text of {i}\n".encode()) if plan == "ok" else ("status", 404) if plan == "404" else ("reset",)) for i in ["MIT", "ISC", "GPL-2.0", "0BSD", "CC0-1.0", "Apache-2.0"]}

        def allowed(before):
            okset = set()
            if out and all_ != 0:
                if out not in before:
                    okset.add(out)
                return okset
            cands = ids if ids else ["MIT", "ISC", "GPL-2.0", "0BSD", "CC0-1.0", "Apache-2.0", "Zlib", "X11", "curl", "BSL-1.0", "GPL-3.0-or-later", "LicenseRef-custom", "LicenseRef-unused",
                                     "LicenseRef-other", "LicenseRef-verif"]
            for i in cands:
                if "/" in i:
                    continue  # not an identifier: nothing may be created for it
                p = f"LICENSES/{i[:-1] if i.endswith('+') else i}.txt"
                if p not in before:
                    okset.add(p)
            if "LICENSES" not in before:
                okset.add("LICENSES")
            if not ids:
                # --all: any identifier the project uses may be fetched, but only as a NEW file directly in LICENSES/
                okset |= {"*NEW-IN-LICENSES*"}
            return okset

        def allowed_wrapped(before):
            a = allowed(before)
            if "*NEW-IN-LICENSES*" in a:
                after = snapshot(self.root)
                a |= {p for p in after if p.startswith("LICENSES/") and p.count("/") == 1 and p.endswith(".txt") and p not in before}
            return a

        self._run(args, allowed_wrapped, "mut", plan=netplan)

    def teardown(self):
        if self.base is not None:
            self.ctx.count({"history": self.history}, nontrivial=self.mutating >= 1 and self.readonly >= 1 and (self.has_link or self.has_ignored),
                           labels=[f"git:{self.has_git}", f"glob:{self.glob}", f"mutating:{min(self.mutating, 3)}", f"readonly:{min(self.readonly, 3)}", f"symlinks:{self.has_link}"]
                           + sorted({f"cmd:{cmd_of(s['args'])}" for s in self.history[1:]}),
                           sample=[s for s in self.history[1:]])
            tree.rmtree(self.base)


def replay(ctx, case):
    """Re-run a recorded history (commands as recorded) and apply the sentinel /
    read-only part of the invariant."""
    global CTX, STUB
    CTX = ctx
    if STUB is None:
        STUB = Stub()
    hist = case["history"]
    init = hist[0]
    m = Machine.__new__(Machine)
    m.ctx, m.base, m.history, m.mutating, m.readonly = ctx, None, [], 0, 0
    spec = {"nodes": {k: tuple(v) for k, v in init["nodes"].items()}, "git": init["git"]}
    Machine.setup(m, spec, init["glob"], init["readonly"], tuple(init.get("empty_dirs", ())), tuple(tuple(x) for x in init.get("links", ())))
    try:
        for step in hist[1:]:
            ro = step["kind"] == "ro"
            args = step["args"]
            if ro:
                m._run(args, lambda b: set(), "ro", cwd=m.base / step.get("cwd", "proj"))
            else:
                with STUB.active({}):
                    before = snapshot(m.root)
                    cli.run(args, m.base / step.get("cwd", "proj"))
                    if snapshot(m.sentinel) != m.sent0:
                        raise Violation(case, f"`reuse {' '.join(args)}` changed the sentinel directory outside the project")
    finally:
        tree.rmtree(m.base)


def run(ctx):
    global CTX, STUB
    CTX = ctx
    STUB = Stub()
    q = ctx.tier == "quick"
    phases = [Phase.generate] + ([Phase.shrink] if not q else [])
    machine = hypothesis.seed(derive_seed(ctx.seed, ID, "machine", ctx.shard))(Machine)
    try:
        run_state_machine_as_test(
            machine,
            settings=settings(max_examples=80 if q else 1000, stateful_step_count=8, deadline=None, database=None, report_multiple_bugs=False,
                              phases=phases, suppress_health_check=list(HealthCheck), print_blob=False),
        )
    except Violation as v:
        ctx.record_violation(v)
    finally:
        STUB.close()
