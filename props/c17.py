"""C17 — convert-dep5 produces an equivalent REUSE.toml.

Valid dep5 files (header fields, 1..5 Files paragraphs, 1..3 patterns each over
{letters, '.', '/', '*', '?', '\\*', '\\?', '\\\\'}, multi-line copyright, comments,
licence bodies) over trees whose paths are derived from the patterns (wildcards
instantiated, then mutated) so that files sit on both sides of every pattern.
Oracle (differential): `reuse lint --json` before vs after `reuse convert-dep5`
must attribute identical copyright lines and expressions to every file
(source type dep5 -> reuse-toml), same exit status; the tree delta is exactly
{-.reuse/dep5, +REUSE.toml}; without dep5 the command refuses (exit 2, no
change); when writing REUSE.toml fails, dep5 is still there.
"""

import itertools
import os
import re

from hypothesis import strategies as st

from vlib import annot as AN
from vlib import cli, faults, tree
from vlib.core import hyp_run
from vlib.gen import project as P
from vlib.ref import globlang as G

ID = "C17"
LEVEL = "exploration"
RULE = (
    "dep5 = header (Format, optional Upstream-Name / Upstream-Contact (1..2) / Source / Disclaimer / Comment / Copyright + License of the work as a whole) + 1..5 Files paragraphs, each 1..3 patterns "
    "over {a b . / * ? \\* \\? \\\\} (ALL patterns of length <= 3 in quick / <= 4 in thorough as single-paragraph projects, random longer ones), 1..3 "
    "copyright lines, licence expression (optionally with a licence text body), optional Comment.  Tree: for every pattern several paths obtained by "
    "instantiating its wildcards (also with '/' and the empty string) and by one-character mutations, plus files with their own header (aggregation), whose notice is sometimes spelled exactly like a Copyright line of the paragraphs.  "
    "Oracle: per-file copyrights / expressions of lint --json identical before and after convert-dep5 (source .reuse/dep5 -> REUSE.toml, dep5 -> "
    "reuse-toml), same exit status; snapshot delta = {-dep5, +REUSE.toml}; no dep5 => exit 2, nothing changes; failing write => dep5 kept.  "
    "Non-trivial = a pattern with a wildcard or escape and a tree with files on both sides of it; distinct by dep5 text + tree."
)
ASSUMPTIONS = [
    "the tool's own lint before the conversion is the reference (differential); vlib/ref/globlang.py only produces witness paths",
    "paths are normalised relative paths (no empty components)",
]

ATOMS = ["a", "b", ".", "/", "*", "?", "\\*", "\\?", "\\\\"]
_BAD_SEG = re.compile(r"^(\.|\.\.|)$")


def valid_path(p):
    if not p or p.startswith("/") or p.endswith("/") or "\n" in p or len(p) > 40 or " " in p:
        return False
    for s in p.split("/"):
        if _BAD_SEG.match(s) or s.startswith(".git") or s in ("LICENSES", ".reuse", "REUSE.toml", "subprojects") or s.endswith(".license"):
            return False
        if s.startswith("LICENSE") or s.startswith("COPYING") or ".spdx" in s:
            return False
    return True


def pattern_ok(pat):
    if not pat or " " in pat:
        return False
    toks, ok = G.dep5_tokenize(pat)
    return ok


@st.composite
def witness_paths(draw, pat):
    toks, _ = G.dep5_tokenize(pat)
    out = set()
    seg = st.sampled_from(["", "a", "b", "x", "ab", "a/b", "/", "x/y", ".", "*", "?", "a.b"])
    for _ in range(draw(st.integers(1, 3))):
        s = ""
        for kind, ch in toks:
            if kind == G.LIT:
                s += ch
            elif kind == G.GLOBSTAR:
                s += draw(seg)
            else:
                s += draw(st.sampled_from(["a", "b", "x", ".", "?", "*"]))
        out.add(s)
        if s and draw(st.booleans()):
            i = draw(st.integers(0, len(s) - 1))
            c = draw(st.sampled_from(["a", "x", "/", ".", "*", "?", "\\"]))
            out.add(draw(st.sampled_from([s[:i] + s[i + 1:], s[:i] + c + s[i:], s[:i] + c + s[i + 1:]])))
    return {p for p in out if valid_path(p)}


@st.composite
def dep5_case(draw):
    nparas = draw(st.integers(1, 5))
    paras = []
    paths = set()
    for k in range(nparas):
        pats = []
        for _ in range(draw(st.integers(1, 3))):
            pat = draw(st.one_of(st.lists(st.sampled_from(ATOMS), min_size=1, max_size=6).map("".join), st.sampled_from(["*", "a/*", "a*", "*b", "a/b/*", "*.b"])))
            if pattern_ok(pat) and not pat.startswith("/"):
                pats.append(pat)
        if not pats:
            pats = ["*"]
        for pat in pats:
            paths |= draw(witness_paths(pat))
        cop = [f"20{10 + k} Holder {k}"] + draw(st.lists(st.sampled_from(["2001 Second Line", "Copyright (C) 1999 Third, Inc.", "© Fourth <f@example.org>"]), max_size=2, unique=True))
        # (among them expressions that a simplifier would reorder, shorten or absorb: they have to arrive as they are)
        lic = draw(st.sampled_from(["MIT", "GPL-3.0-or-later", "Apache-2.0 OR MIT", f"LicenseRef-p{k}", "GPL-2.0-only WITH Classpath-exception-2.0",
                                    "MIT OR 0BSD", "CC0-1.0 AND (CC0-1.0 OR Apache-2.0)", "ISC OR ISC", "(MIT AND ISC) OR MIT"]))
        para = {"files": pats, "cop": cop, "lic": lic, "folded": draw(st.integers(0, 3)) == 0, "body": draw(st.booleans()), "comment": draw(st.sampled_from([None, None, "A comment.", "Two\n lines"])),
                # layout of the continuation lines of the Copyright field: uneven indentation, trailing blanks
                "indent": draw(st.lists(st.sampled_from([" ", "  ", "      ", "\t", " \t"]), min_size=3, max_size=3)),
                "trail": draw(st.lists(st.sampled_from(["", "", " ", "  "]), min_size=3, max_size=3))}
        if k >= 2 and draw(st.integers(0, 2)) == 0:
            # a non-adjacent twin: exactly the same information as an earlier paragraph (only the order of paragraphs tells them apart)
            twin = paras[draw(st.integers(0, k - 2))]
            para = dict(para, cop=twin["cop"], lic=twin["lic"], body=twin["body"], comment=twin["comment"])
        paras.append(para)
    header = {"name": draw(st.sampled_from([None, "proj"])), "contacts": draw(st.lists(st.sampled_from(["Jane <j@example.org>", "https://example.org/contact"]), max_size=2, unique=True)),
              "source": draw(st.sampled_from([None, "https://example.org/src"])), "disclaimer": draw(st.sampled_from([None, "Not official."])),
              "comment": draw(st.sampled_from([None, "Header comment."])),
              # licence of the work as a whole in the header paragraph (DEP5 allows it; it applies to no file)
              "whole": draw(st.sampled_from([None, None, None, ("2000 The Whole Work", "GPL-3.0-or-later"), ("2000 The Whole Work", "LicenseRef-whole")]))}
    extra = draw(st.lists(st.sampled_from(["src/own.py", "own.c", "a/own.txt"]), max_size=2, unique=True))
    # the in-file notice of the files with their own header is sometimes spelled exactly like a Copyright line of the paragraphs
    own_cop = draw(st.sampled_from([None, None, "Copyright (C) 1999 Third, Inc.", "© Fourth <f@example.org>"]))
    return {"paras": paras, "paths": sorted(paths), "header": header, "own": extra, "own_cop": own_cop}


def render_dep5(c):
    h = c["header"]
    out = ["Format: https://www.debian.org/doc/packaging-manuals/copyright-format/1.0/"]
    if h["name"]:
        out.append(f"Upstream-Name: {h['name']}")
    if h["contacts"]:
        out.append("Upstream-Contact: " + h["contacts"][0])
        for x in h["contacts"][1:]:
            out.append(" " + x)
    if h["source"]:
        out.append(f"Source: {h['source']}")
    if h["disclaimer"]:
        out.append(f"Disclaimer: {h['disclaimer']}")
    if h["comment"]:
        out.append(f"Comment: {h['comment']}")
    if h.get("whole"):
        out.append(f"Copyright: {h['whole'][0]}")
        out.append(f"License: {h['whole'][1]}")
    out.append("")
    for p in c["paras"]:
        out.append("Files: " + p["files"][0])
        for f in p["files"][1:]:
            out.append(" " + f)
        ind = p.get("indent") or ["  "] * 3
        trl = p.get("trail") or [""] * 3
        if p.get("folded"):
            # the whole field on continuation lines ('Copyright:' with nothing after the colon)
            out.append("Copyright:")
            out.append(ind[0] + p["cop"][0] + (trl[0] if len(p["cop"]) > 1 else ""))
        else:
            out.append("Copyright: " + p["cop"][0] + (trl[0] if len(p["cop"]) > 1 else ""))
        for n, x in enumerate(p["cop"][1:]):
            out.append(ind[n % 3] + x + (trl[(n + 1) % 3] if n + 2 < len(p["cop"]) else ""))
        out.append("License: " + p["lic"])
        if p["body"]:
            out += [" Full licence text", " .", " second paragraph"]
        if p["comment"]:
            out.append("Comment: " + p["comment"])
        out.append("")
    return "\n".join(out)


def _rx(toks, q_literal=False, star_slash_optional=False):
    out = []
    i = 0
    while i < len(toks):
        kind, ch = toks[i]
        if kind == G.LIT:
            out.append(re.escape(ch))
        elif kind == "any":
            out.append(re.escape("?") if q_literal else ".")
        else:
            j = i
            while j > 0 and toks[j - 1][0] == G.GLOBSTAR:
                j -= 1  # a run of dep5 wildcards becomes one run of asterisks in the glob
            if star_slash_optional and i + 1 < len(toks) and toks[i + 1] == (G.LIT, "/") and (j == 0 or toks[j - 1] == (G.LIT, "/")):
                out.append("(?:.*/)?")
                i += 1
            else:
                out.append(".*")
        i += 1
    return re.compile("".join(out), re.DOTALL)


def signature(c, differing_paths):
    """A recorded finding explains the difference only if EVERY differing file is
    one on which a pattern behaves differently under that finding's reading."""
    pats = [f for p in c["paras"] for f in p["files"]]
    toks = [G.dep5_tokenize(p)[0] for p in pats]

    def explained(path, **kw):
        return any(bool(_rx(t).fullmatch(path)) != bool(_rx(t, **kw).fullmatch(path)) for t in toks)

    if not differing_paths:
        return ""
    by_q = [p for p in differing_paths if explained(p, q_literal=True)]
    by_s = [p for p in differing_paths if explained(p, star_slash_optional=True)]
    if set(by_q) | set(by_s) != set(differing_paths):
        return ""  # some difference has no recorded explanation
    return "dep5-question-mark" if by_q else "dep5-star-slash"


def per_file(data):
    out = {}
    for f in data["files"]:
        out[f["path"]] = (frozenset(x["value"] for x in f["copyrights"]), frozenset(x["value"] for x in f["spdx_expressions"]),
                          frozenset((x["source"], x["source_type"]) for x in f["copyrights"] + f["spdx_expressions"]))
    return out


def check(ctx, c):
    doc = render_dep5(c)
    files = {".reuse/dep5": doc}
    paths = [p for p in c["paths"] if valid_path(p)]
    # no path may be a directory prefix of another
    paths = [p for p in paths if not any(q != p and q.startswith(p + "/") for q in paths)]
    for p in paths:
        files[p] = "content\n"
    for p in c["own"]:
        if valid_path(p) and not any(q == p or q.startswith(p + "/") or p.startswith(q + "/") for q in paths):
            files[p] = P.header_text("python" if p.endswith(".py") else "c" if p.endswith(".c") else "none", [c.get("own_cop") or "SPDX-FileCopyrightText: 2020 Own Holder"], ["ISC"])
    if len(files) == 1:
        files["a"] = "content\n"
    root = ctx.fresh_dir()
    try:
        tree.write_tree(root, files)
        r0, before = tree.lint_json(root)
        if before is None:
            if r0.code == 2:
                ctx.excluded["dep5-rejected-by-the-tool"] += 1
                return
            ctx.fail(c, f"lint --json failed before the conversion: {r0.brief()}")
        snap0 = AN.snapshot(root)
        if len(paths) % 3 == 0:
            # a stale REUSE.toml of zero bytes (left by an interrupted run; the tool does not take it for a configuration file):
            # either nothing happens or the conversion is complete
            (root / "REUSE.toml").write_bytes(b"")
            rs = cli.run(["convert-dep5"], root)
            ctx.label("stale-empty-REUSE.toml")
            if (root / ".reuse/dep5").exists():
                if (root / "REUSE.toml").read_bytes() != b"" or (root / ".reuse/dep5").read_bytes() != snap0[".reuse/dep5"]:
                    ctx.fail(c, f"convert-dep5 next to an empty REUSE.toml ({rs.brief()}) kept dep5 but changed files")
                os.unlink(root / "REUSE.toml")
            else:
                _r, again = tree.lint_json(root)
                if again is None or per_file(again) != {p: (v[0], v[1], {(("REUSE.toml", "reuse-toml") if s == (".reuse/dep5", "dep5") else s) for s in v[2]}) for p, v in per_file(before).items()}:
                    ctx.fail(c, f"convert-dep5 next to an empty REUSE.toml removed .reuse/dep5 without a complete conversion ({rs.brief()}); REUSE.toml now: {(root / 'REUSE.toml').read_bytes()[:200]!r}")
                return
        # ---- failing write first (on a copy of the state: restore afterwards)
        with faults.injected({str(root / "REUSE.toml"): "nowrite"}):
            rf = cli.run(["convert-dep5"], root)
        if not (root / ".reuse/dep5").exists():
            ctx.fail(c, f"writing REUSE.toml failed ({type(rf.crash).__name__ if rf.crash else rf.code}) but .reuse/dep5 is gone")
        if (root / "REUSE.toml").exists():
            os.unlink(root / "REUSE.toml")
        # ---- the conversion
        rc = cli.run(["convert-dep5"], root)
        if rc.crash is not None or rc.code != 0:
            ctx.fail(c, f"convert-dep5 failed on a dep5 file that lint accepts: {rc.brief()}")
        snap1 = AN.snapshot(root)
        delta = {p for p in set(snap0) | set(snap1) if snap0.get(p) != snap1.get(p)}
        if delta != {".reuse/dep5", "REUSE.toml"} or ".reuse/dep5" in snap1 or "REUSE.toml" not in snap1:
            ctx.fail(c, f"tree delta after convert-dep5 is {sorted(delta)} (expected -.reuse/dep5 +REUSE.toml)")
        r1, after = tree.lint_json(root)
        if after is None:
            ctx.fail(c, f"lint --json failed after the conversion: {r1.brief()}; REUSE.toml:\n{snap1['REUSE.toml'].decode()[:800]}")
        b, a = per_file(before), per_file(after)
        pats = [f for p in c["paras"] for f in p["files"]]
        special = any(ch in p for p in pats for ch in "*?\\")
        matched = [p for p in b if any(s[1] == "dep5" for s in b[p][2])]
        ctx.count(doc + repr(sorted(files)), nontrivial=special and bool(matched) and len(matched) < len(b),
                  labels=[f"paras:{len(c['paras'])}", f"wild:{special}", f"matched:{min(len(matched), 3)}", f"files:{min(len(b), 6)}"],
                  sample={"dep5": doc, "paths": sorted(files)[:12]})
        diffs = []
        differing = []
        if set(a) != set(b):
            diffs.append(f"file sets differ: {sorted(set(a) ^ set(b))}")
        for p in sorted(set(a) & set(b)):
            if a[p][0] != b[p][0] or a[p][1] != b[p][1]:
                differing.append(p)
                diffs.append(f"{p}: before copyrights={sorted(b[p][0])} licences={sorted(b[p][1])}; after copyrights={sorted(a[p][0])} licences={sorted(a[p][1])}")
            else:
                want_src = {(("REUSE.toml", "reuse-toml") if s == (".reuse/dep5", "dep5") else s) for s in b[p][2]}
                if a[p][2] != want_src:
                    diffs.append(f"{p}: sources before {sorted(b[p][2])}, after {sorted(a[p][2])}")
        if diffs:
            ctx.fail(dict(c, toml=snap1["REUSE.toml"].decode()), "conversion changed the attribution: " + "; ".join(diffs[:4]) + f"\nREUSE.toml:\n{snap1['REUSE.toml'].decode()[:600]}",
                     signature(c, differing) if len(differing) == len(diffs) else "")
            return
        if r0.code != r1.code:
            ctx.fail(c, f"lint exit status {r0.code} before, {r1.code} after")
        # ---- refuses without dep5
        snap2 = AN.snapshot(root)
        r2 = cli.run(["convert-dep5"], root)
        if r2.crash is not None or r2.code != 2 or AN.snapshot(root) != snap2:
            ctx.fail(c, f"convert-dep5 without a dep5 file must refuse (exit 2) and change nothing: {r2.brief()}")
    finally:
        tree.rmtree(root)


def single_pattern_case(pat):
    toks, _ = G.dep5_tokenize(pat)
    paths = set()
    pools = {G.GLOBSTAR: ["", "x", "x/y", "/"], "any": ["x", ".", "/"]}
    choices = [[ch] if kind == G.LIT else pools[kind] for kind, ch in toks]
    for combo in itertools.islice(itertools.product(*choices), 48):
        s = "".join(combo)
        paths.add(s)
        paths.add(s + "x")
        paths.add("x" + s)
        for i in range(len(s)):
            paths.add(s[:i] + s[i + 1:])  # one character less: just outside the pattern
    return {"paras": [{"files": [pat], "cop": ["2020 Holder"], "lic": "MIT", "body": False, "comment": None}], "paths": sorted(p for p in paths if valid_path(p)),
            "header": {"name": None, "contacts": [], "source": None, "disclaimer": None, "comment": None}, "own": []}


def replay(ctx, c):
    c = {k: v for k, v in c.items() if k != "toml"}
    check(ctx, c)


def run(ctx):
    q = ctx.tier == "quick"
    maxlen = 3 if q else 4
    i = 0
    n = 0
    for L in range(1, maxlen + 1):
        for combo in itertools.product(ATOMS, repeat=L):
            pat = "".join(combo)
            if not pattern_ok(pat) or pat.startswith("/"):
                continue
            i += 1
            if i % ctx.nshards != ctx.shard:
                continue
            check(ctx, single_pattern_case(pat))
            n += 1
    ctx.extra["exhaustive_subspaces"] = [f"every valid dep5 pattern of 1..{maxlen} atoms over {{a b . / * ? \\* \\? \\\\}} as a one-paragraph project with instantiated witness paths"]
    hyp_run(ctx, "dep5", dep5_case(), lambda c: check(ctx, c), 250 if q else 3000)
