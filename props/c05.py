"""C05 — REUSE.toml path globs match exactly the specified language.

Decision is always the real call ``AnnotationsItem(paths=[g...]).matches(p)``
on a concrete path; the oracle is the sandwich narrow(g) <= . <= wide(g) of the
independent reference model ``vlib.ref.globlang``.
"""

import itertools
import re

from hypothesis import strategies as st

from vlib import fuzzing, tree
from vlib.core import hyp_run
from vlib.ref import automata as AU
from vlib.ref import globlang as G

ID = "C05"
LEVEL = "exploration"
SHARDS = {"quick": 16, "thorough": 16}
RULE = (
    "Globs: ALL strings of length 1..5 (quick) / 1..6 (thorough) over {a . / * \\}; paths: ALL strings of length 0..6 over "
    "{a b . / * \\} (55 987), every (glob, path) pair judged by the real AnnotationsItem.matches against the reference sandwich "
    "narrow(g) => matches => wide(g) (wide: '**/' may match zero directories).  Plus Hypothesis: longer globs over a larger alphabet "
    "incl. regex metacharacters and non-ASCII, several globs per item, paths obtained by instantiating the glob's wildcards and mutating; "
    "plus sampled pairs through a real REUSE.toml and `reuse lint --json`.  UNSPECIFIED (counted, not judged): trailing lone backslash, "
    "runs of >= 3 asterisks.  In addition, for every glob the tool's compiled pattern is turned into an automaton (when it stays inside the fragment "
    "literal / .* / [^/]* / (?:.*/)? / alternation) and compared with the reference automata by language inclusion; shortest witnesses of any length are "
    "judged by the real call.  Non-trivial = glob with a wildcard or escape for which the explored path set holds both a matching and a "
    "non-matching path; distinct by glob text."
)
ASSUMPTIONS = [
    "vlib/ref/globlang.py (tokenizer + regex, cross-checked each run against a backtracking matcher) states the language",
    "'**/' matching zero directories is allowed but not required (sandwich)",
]

GA = "a./*\\"
PA = "ab./*\\"


def all_strings(alpha, lo, hi):
    for n in range(lo, hi + 1):
        for t in itertools.product(alpha, repeat=n):
            yield "".join(t)


def real_item(globs):
    from reuse.global_licensing import AnnotationsItem

    return AnnotationsItem(paths=list(globs))


def judge(ctx, globs, path, real, narrow, wide):
    if narrow and not real:
        ctx.fail({"globs": list(globs), "path": path}, f"path {path!r} is in the language of {list(globs)!r} but matches() is False")
    if real and not wide:
        ctx.fail({"globs": list(globs), "path": path}, f"path {path!r} is outside the language of {list(globs)!r} (even with '**/' matching zero directories) but matches() is True")


def check_by_inclusion(ctx, globs, item):
    """Unbounded path quantifier: product of the reference automata with the
    automaton of the tool's compiled pattern gives witnesses of any length; each
    witness is then judged by the real matches() call."""
    pattern = getattr(getattr(item, "_paths_regex", None), "pattern", None)
    if pattern is None:
        ctx.label("inclusion:no-compiled-pattern")
        return
    try:
        found = list(AU.witnesses(list(globs), pattern))
    except AU.OutsideFragment:
        ctx.label("inclusion:pattern-outside-fragment")
        return
    ctx.label("inclusion:decided")
    comp = [G.compile_glob(g) for g in globs]
    for w, _kind in found:
        r = bool(item.matches(w))
        n = any(c[0](w) is not None for c in comp)
        wd = any(c[1](w) is not None for c in comp)
        ctx.label("inclusion:witness")
        judge(ctx, globs, w, r, n, wd)


def check_glob_exhaustive(ctx, glob, paths):
    nf, wf, spec = G.compile_glob(glob)
    if not spec:
        ctx.excluded["unspecified-glob"] += 1
        return
    item = real_item([glob])
    check_by_inclusion(ctx, [glob], item)
    m = item.matches
    any_match = any_miss = False
    for p in paths:
        r = bool(m(p))
        n = nf(p) is not None
        if r != n:
            w = wf(p) is not None
            judge(ctx, [glob], p, r, n, w)
        if r:
            any_match = True
        else:
            any_miss = True
    special = ("*" in glob) or ("\\" in glob)
    ctx.count(glob, nontrivial=special and any_match and any_miss,
              labels=["glob:" + ("globstar" if "**" in glob else "star" if "*" in glob else "plain") + ("+esc" if "\\" in glob else "")],
              sample={"glob": glob, "paths_tried": len(paths)})
    ctx.extra["pairs"] = ctx.extra.get("pairs", 0) + len(paths)


# ---- random / model-guided -------------------------------------------------
BIG = list("ab./*\\- _+?$^|()[]{}é日\n") + ["**", "**/", "/**", "\\*", "\\\\", "*."]


def instantiate(draw, toks):
    seg = st.text(alphabet="abé.-* \\", max_size=3)
    anyrun = st.text(alphabet="ab/.é*\\", max_size=5)
    out = []
    for kind, ch in toks:
        if kind == G.LIT:
            out.append(ch)
        elif kind == G.STAR:
            out.append(draw(seg))
        else:
            out.append(draw(anyrun))
    return "".join(out)


@st.composite
def glob_case(draw):
    globs = draw(st.lists(st.lists(st.sampled_from(BIG), min_size=1, max_size=10).map("".join), min_size=1, max_size=3))
    paths = []
    for g in globs:
        toks, _ = G.tokenize(g)
        for _ in range(draw(st.integers(1, 3))):
            p = instantiate(draw, toks)
            paths.append(p)
            # one mutation
            if p and draw(st.booleans()):
                i = draw(st.integers(0, len(p) - 1))
                kind = draw(st.sampled_from(["del", "ins", "rep"]))
                c = draw(st.sampled_from(list("ab/.*\\")))
                if kind == "del":
                    paths.append(p[:i] + p[i + 1:])
                elif kind == "ins":
                    paths.append(p[:i] + c + p[i:])
                else:
                    paths.append(p[:i] + c + p[i + 1:])
    paths.append(draw(st.text(alphabet="ab/.*\\", max_size=8)))
    return globs, paths


def check_random(ctx, case):
    globs, paths = case
    comp = [G.compile_glob(g) for g in globs]
    if not all(c[2] for c in comp):
        ctx.excluded["unspecified-glob"] += 1
        return
    item = real_item(globs)
    if all("\n" not in g for g in globs):
        check_by_inclusion(ctx, globs, item)
    any_match = any_miss = False
    for p in paths:
        r = bool(item.matches(p))
        n = any(c[0](p) is not None for c in comp)
        w = any(c[1](p) is not None for c in comp)
        # cross-validate the regex model against the backtracking matcher
        n2 = any(G.match_tokens(G.tokenize(g)[0], p, False) for g in globs)
        w2 = any(G.match_tokens(G.tokenize(g)[0], p, True) for g in globs)
        if (n, w) != (n2, w2):
            from vlib import HarnessError

            raise HarnessError(f"reference regex and backtracking matcher disagree on {globs!r} {p!r}")
        judge(ctx, globs, p, r, n, w)
        any_match |= r
        any_miss |= not r
    special = any(("*" in g) or ("\\" in g) for g in globs)
    ctx.count({"globs": globs}, nontrivial=special and any_match and any_miss,
              labels=[f"random:nglobs={len(globs)}"], sample={"globs": globs, "paths": paths[:6]})
    ctx.extra["pairs"] = ctx.extra.get("pairs", 0) + len(paths)


# ---- through a real REUSE.toml and lint ------------------------------------
_SEG_OK = re.compile(r"^[^/\n']+$")


def valid_relpath(p):
    if not p or p.startswith("/") or p.endswith("/") or "\n" in p or len(p) > 60:
        return False
    segs = p.split("/")
    for s in segs:
        if not _SEG_OK.match(s) or s in (".", "..") or s.startswith(".git") or s in ("LICENSES", ".reuse", "REUSE.toml", "subprojects"):
            return False
        if s.endswith(".license") or s.startswith("LICENSE") or s.startswith("COPYING") or ".spdx" in s:
            return False
    return True


@st.composite
def lint_case(draw):
    alpha = list("ab.*\\-") + ["/", "**", "**/", "*", "\\*"]
    g = draw(st.lists(st.sampled_from(alpha), min_size=1, max_size=7).map("".join))
    toks, _ = G.tokenize(g)
    paths = set()
    for _ in range(3):
        paths.add(instantiate(draw, toks))
    paths.add(draw(st.text(alphabet="ab/.*", min_size=1, max_size=6)))
    paths.add("." + draw(st.sampled_from(["a", "ab/a", "a/b.a"])))
    # layout: the REUSE.toml under test at the root, or in a sub-directory between unrelated sibling REUSE.toml files
    # (globs are relative to the directory of their own REUSE.toml)
    return g, sorted(paths), draw(st.sampled_from([(), (), ("--root", "."), ("--root", "../proj")])), draw(st.sampled_from(["root", "nested", "nested-deep"]))


def check_lint(ctx, case):
    glob, paths = case[0], case[1]
    root_spelling = case[2] if len(case) > 2 else ()
    layout = case[3] if len(case) > 3 else "root"
    nf, wf, spec = G.compile_glob(glob)
    if not spec or "'" in glob or "\n" in glob:
        ctx.excluded["unspecified-glob"] += 1
        return
    paths = [p for p in paths if valid_relpath(p)]
    # no path may be a directory prefix of another
    paths = [p for p in paths if not any(q != p and q.startswith(p + "/") for q in paths)]
    if not paths:
        return
    d = ctx.fresh_dir() / "proj"
    d.mkdir()
    try:
        base = {"root": "", "nested": "mid/", "nested-deep": "mid/low/"}[layout]
        files = {base + p: "x\n" for p in paths}
        files[base + "REUSE.toml"] = (
            "version = 1\n[[annotations]]\npath = '%s'\nSPDX-FileCopyrightText = 'G'\nSPDX-License-Identifier = 'MIT'\n" % glob
        )
        if layout != "root":
            other = "version = 1\n[[annotations]]\npath = 'nothing-here-%s'\nSPDX-FileCopyrightText = 'Other'\nSPDX-License-Identifier = 'ISC'\n"
            for k, od in enumerate(["", "+first/", "0first/", "zlast/", "mid/+in/", "mid/zin/"] + (["mid/", "mid/low/zz/"] if layout == "nested-deep" else [])):
                if od != base:
                    files[od + "REUSE.toml"] = other % k
                    files.setdefault(od + "other.txt", "x\n")
        tree.write_tree(d, files)
        res, data = tree.lint_json(d, extra=tuple(root_spelling))
        if data is None:
            ctx.fail({"glob": glob, "paths": paths}, f"lint --json failed on a valid REUSE.toml: {res.brief()}")
        any_match = any_miss = False
        for p in paths:
            ent = tree.file_entry(data, base + p)
            if ent is None:
                continue  # coverage is C03's subject
            r = any(c["value"] == "G" for c in ent["copyrights"])
            n, w = nf(p) is not None, wf(p) is not None
            judge(ctx, [glob], p, r, n, w)
            any_match |= r
            any_miss |= not r
        special = ("*" in glob) or ("\\" in glob)
        ctx.count({"lint-glob": glob, "paths": paths}, nontrivial=special and any_match and any_miss, labels=["via-lint", f"via-lint:root={' '.join(root_spelling) or 'default'}", f"via-lint:layout={layout}"],
                  sample={"glob": glob, "paths": paths, "via": "REUSE.toml + lint --json"})
    finally:
        tree.rmtree(d.parent)


def replay(ctx, case):
    if "fuzz" in case:
        return fuzzing.replay(ctx, case)
    globs = case.get("globs") or [case["glob"]]
    p = case["path"]
    comp = [G.compile_glob(g) for g in globs]
    r = bool(real_item(globs).matches(p))
    judge(ctx, globs, p, r, any(c[0](p) is not None for c in comp), any(c[1](p) is not None for c in comp))


def run(ctx):
    gmax = 5 if ctx.tier == "quick" else 6
    paths = list(all_strings(PA, 0, 6))
    if ctx.tier == "thorough":
        # length 7 paths too, for the short globs (<= 4)
        paths7 = list(all_strings(PA, 7, 7))
    for i, g in enumerate(all_strings(GA, 1, gmax)):
        if i % ctx.nshards != ctx.shard:
            continue
        check_glob_exhaustive(ctx, g, paths)
        if ctx.tier == "thorough" and len(g) <= 4:
            check_glob_exhaustive(ctx, g, paths7)
    ctx.extra["exhaustive"] = True
    ctx.extra["exhaustive_subspaces"] = [
        f"globs: all {sum(5**k for k in range(1, gmax + 1))} strings of length 1..{gmax} over {{a . / * \\}}",
        "paths: all 55 987 strings of length 0..6 over {a b . / * \\}" + (" (+ all of length 7 for globs <= 4)" if ctx.tier == "thorough" else ""),
    ]
    hyp_run(ctx, "random", glob_case(), lambda c: check_random(ctx, c), 1500 if ctx.tier == "quick" else 30000)
    hyp_run(ctx, "lint", lint_case(), lambda c: check_lint(ctx, c), 40 if ctx.tier == "quick" else 800)
    # coverage-guided stage (atheris) over 'glob NUL path' byte strings, same sandwich oracle
    fuzzing.run_stage(ctx, "glob", 5000 if ctx.tier == "quick" else 400000, max_len=64)
