"""C14 — Results do not depend on scheduling, enumeration order or root
spelling.

Metamorphic: one generated tree, many ways of running `reuse lint --json` and
`reuse spdx --add-license-concluded`: serial, worker pools of 1/2/3/16
processes, permuted directory-listing order (os.walk / glob wrappers owned by
the harness), several PYTHONHASHSEED values (fresh interpreters), working
directory inside / outside the project, --root given absolute, relative and
non-normalised.  All normalised outputs of one tree must be identical.
"""

import contextlib
import glob as _glob
import json
import os
import random
import re
from pathlib import Path

from hypothesis import strategies as st

from vlib import cli, tree
from vlib.core import hyp_run
from vlib.gen import fullproject as FP
from vlib.gen import project as P
from vlib.gen import values as V

ID = "C14"
LEVEL = "exploration"
SHARDS = {"quick": 16, "thorough": 16}
RULE = (
    "Trees: (a) C01-style projects (headers in 27 styles, .license, root REUSE.toml with fallback table, dep5, defects, several expressions per file) and "
    "(b) nested REUSE.toml hierarchies (root, sub/, sub/deep/, other/ with '**', '*.py' and exact tables, closest / aggregate / override, partial "
    "information) over 6..20 files, lines ending in two stacked comment terminators, LICENSES/ with several texts.  Variants per tree (>= 10): "
    "serial; pool of k in {1, 2, 3, 16} workers; 2 permutations of every directory listing (os.walk and glob) serial and pooled; 3 PYTHONHASHSEED values "
    "in fresh interpreters; cwd = root / sub-directory with --root .. / outside with --root absolute, relative, 'proj/../proj/.' and 'other/link/..' through a symbolic link into the project; inside a Git work tree without --root from the root, a sub-directory and a nested directory holding a LICENSES/ of its own (compared with one another).  Oracle: normalised "
    "lint --json (lists sorted, paths relative to the root) and normalised spdx --add-license-concluded (namespace UUID and timestamp masked, sections "
    "sorted) identical across all variants.  Non-trivial = tree with >= 2 REUSE.toml or dep5 or >= 8 files, and >= 10 variants compared; distinct by tree."
)
ASSUMPTIONS = [
    "OS scheduling itself is not controlled: workers share no state, so pool size and task order are the only channels, and both are varied",
    "directory-listing order is varied by wrapping os.walk / glob.iglob in the harness process (inherited by forked workers)",
]

DIRS = ["", "sub", "sub/deep", "other", ".cfg", "+assets", "(g)"]


@st.composite
def nested_state(draw):
    ids = ["MIT", "ISC", "0BSD", "Zlib", "GPL-3.0-or-later", "LicenseRef-x"]
    files = {}
    n = draw(st.integers(6, 20))
    for i in range(n):
        d = draw(st.sampled_from(DIRS))
        ext = draw(st.sampled_from([".py", ".py", ".c", ".txt"]))
        own = draw(st.sampled_from(["none", "none", "cop", "lic", "both", "stacked", "two-lic", "commuted", "case-twins"]))
        p = f"{d}/f{i}{ext}" if d else f"f{i}{ext}"
        style = {".py": "python", ".c": "c", ".txt": "none"}[ext]
        cop = [f"SPDX-FileCopyrightText: 20{i:02d} Holder {i}"] if own in ("cop", "both", "two-lic") else []
        lic = [draw(st.sampled_from(ids))] if own in ("lic", "both") else []
        if own == "two-lic":
            a, b, c_ = draw(st.permutations(ids))[:3]
            lic = [f"{a} OR {b}", f"{b} OR {c_}", f"{c_} AND {a}"]
        if own == "case-twins":
            # two notices of one source that differ in capitalisation / spacing only: both are stated, in an order no hash seed decides
            cop = [f"SPDX-FileCopyrightText: 20{i:02d} ACME Widgets {i} GmbH", f"SPDX-FileCopyrightText: 20{i:02d} Acme Widgets {i} GmbH", f"SPDX-FileCopyrightText: 20{i:02d} Acme  Widgets {i} GmbH"]
            lic = [draw(st.sampled_from(ids))]
        if own == "commuted":
            # two tags that state one expression with the operands in different order (equal to the expression library): which spelling is
            # reported must not depend on the hash seed
            a, b = draw(st.permutations(ids))[:2]
            cop = [f"SPDX-FileCopyrightText: 20{i:02d} Holder {i}"]
            lic = [f"{a} AND {b}", f"{b} AND {a}"] if draw(st.booleans()) else [f"{a} OR {b}", f"{b} OR {a}", f"{b}  OR {a}"]
        if own == "stacked":
            files[p] = f"/* SPDX-FileCopyrightText: 2020 Stacked {i} */-->\n<!-- SPDX-License-Identifier: MIT -->*/\nbody\n"
        else:
            files[p] = P.header_text(style, cop, lic)
    for d in DIRS:
        if draw(st.booleans()):
            tables = []
            for _ in range(draw(st.integers(1, 2))):
                path = draw(st.sampled_from(["**", "*.py", "**/*.c", "f1.py", "deep/**", "*.txt"]))
                prec = draw(st.sampled_from(["closest", "closest", "aggregate", "override"]))
                info = draw(st.sampled_from(["cop", "lic", "both"]))
                tables.append({"paths": [path], "precedence": prec,
                               "cop": [f"2019 Toml {d or 'root'}"] if info in ("cop", "both") else [],
                               "lic": [draw(st.sampled_from(ids))] if info in ("lic", "both") else []})
            files[(d + "/" if d else "") + "REUSE.toml"] = P.reuse_toml(tables)
    for i in draw(st.lists(st.sampled_from(ids + ["junk", "GPL-2.0"]), max_size=5, unique=True)):
        files[f"LICENSES/{i}.txt"] = f"text {i}\n"
    if draw(st.integers(0, 3)) == 0:
        # a licence text stored under the identifier with its '+', used with and without the '+' in different files:
        # 'X+' is satisfied by it, 'X' is not, whichever is looked at first
        x = draw(st.sampled_from(["GPL-2.0", "Apache-1.0", "LGPL-2.1"]))
        files[f"LICENSES/{x}+.txt"] = "text\n"
        files["a_plus.py"] = P.header_text("python", ["SPDX-FileCopyrightText: 2001 Plus"], [f"{x}+"])
        files["z_plain.c"] = P.header_text("c", ["SPDX-FileCopyrightText: 2001 Plain"], [x])
        if draw(st.booleans()):
            files["sub/m_plus.py"] = P.header_text("python", ["SPDX-FileCopyrightText: 2001 Plus"], [f"{x}+ OR MIT"])
    if draw(st.integers(0, 7)) == 0:
        # the same licence twice (with and without extension): the tool refuses such a project; it must do so
        # the same way whatever order the directory is listed in
        d = draw(st.sampled_from(["MIT", "ISC", "Zlib", "LicenseRef-a.b", "LicenseRef-x"]))
        files[f"LICENSES/{d}.txt"] = "text\n"
        files[f"LICENSES/{d}"] = "text\n"
    return {"kind": "nested", "files": files}


@st.composite
def case(draw):
    kind = draw(st.sampled_from(["nested", "nested", "full"]))
    if kind == "nested":
        t = draw(nested_state())
    else:
        t = {"kind": "full", "state": draw(FP.project_state(compliant_bias=draw(st.booleans()), max_files=10, git=False, expr_depth=2))}
    return {"tree": t, "rootname": draw(st.sampled_from(["proj", "proj", "proj", "subprojects", "LICENSES", "proj[1]", "a*b?"])),
            "perm_seeds": draw(st.lists(st.integers(0, 10**6), min_size=2, max_size=2, unique=True)),
            "hashseeds": draw(st.lists(st.integers(1, 4000), min_size=3, max_size=3, unique=True))}


@contextlib.contextmanager
def permuted_listing(seed):
    """Permute every directory listing the code under test sees."""
    real_walk = os.walk
    real_iglob = _glob.iglob
    rnd = random.Random(seed)  # a pure function of the Hypothesis-drawn seed

    def walk(top, *a, **kw):
        for root, dirs, files in real_walk(top, *a, **kw):
            rnd.shuffle(dirs)
            rnd.shuffle(files)
            yield root, dirs, files

    def iglob(*a, **kw):
        items = list(real_iglob(*a, **kw))
        rnd.shuffle(items)
        return iter(items)

    os.walk = walk
    _glob.iglob = iglob
    try:
        yield
    finally:
        os.walk = real_walk
        _glob.iglob = real_iglob


@contextlib.contextmanager
def pool_size(k):
    import multiprocessing as mp

    import reuse.report as R

    real = R.mp.Pool

    def factory(*a, **kw):
        return real(processes=k)

    R.mp.Pool = factory
    try:
        yield
    finally:
        R.mp.Pool = real


def norm_lint(out, cwd, root):
    data = json.loads(out)

    def rel(s):
        p = Path(s)
        if not p.is_absolute():
            # file paths are printed as walked (relative to the cwd), LICENSES/ paths relative to the root
            p = Path(cwd) / p if os.path.lexists(Path(cwd) / p) or not os.path.lexists(Path(root) / p) else Path(root) / p
        # the directory part is resolved the way the kernel does (a root spelled 'other/link/..' is the parent of the link's
        # target, not 'other'); the last component stays what it is
        q = os.path.join(os.path.realpath(p.parent), p.name) if os.path.isdir(p.parent) else os.path.normpath(p)
        return os.path.relpath(q, os.path.realpath(root))

    nc = data["non_compliant"]
    res = {
        "files": sorted((f["path"], sorted((c["value"], c["source"], c["source_type"]) for c in f["copyrights"]),
                         sorted((e["value"], e["source"], e["source_type"]) for e in f["spdx_expressions"])) for f in data["files"]),
        "missing": sorted((k, sorted(rel(x) for x in v)) for k, v in nc["missing_licenses"].items()),
        "bad": sorted((k, sorted(rel(x) for x in v)) for k, v in nc["bad_licenses"].items()),
        "unused": sorted(nc["unused_licenses"]), "deprecated": sorted(nc["deprecated_licenses"]),
        "noext": sorted((k, rel(v)) for k, v in nc["licenses_without_extension"].items()),
        "nocop": sorted(rel(x) for x in nc["missing_copyright_info"]), "nolic": sorted(rel(x) for x in nc["missing_licensing_info"]),
        "read_errors": sorted(rel(x) for x in nc["read_errors"]),
        "summary": {k: (sorted(v) if isinstance(v, list) else v) for k, v in data["summary"].items()},
        "recommendations": data["recommendations"],
    }
    return res


_UUID = re.compile(r"spdx-v2\.1-[0-9a-f-]{36}")


def norm_spdx(out):
    out = _UUID.sub("spdx-v2.1-UUID", out)
    out = re.sub(r"^Created: .*$", "Created: T", out, flags=re.M)
    sections = out.split("\n\n")
    head = sections[0].split("\n")
    rels = sorted(x for x in head if x.startswith("Relationship:"))
    head = [x for x in head if not x.startswith("Relationship:")]
    return {"head": head, "relationships": rels, "sections": sorted(sections[1:])}


def check(ctx, c):
    base = ctx.fresh_dir()
    rootname = c.get("rootname", "proj")
    root = base / rootname
    root.mkdir()
    try:
        t = c["tree"]
        if t["kind"] == "nested":
            tree.write_tree(root, t["files"])
            ntoml = sum(1 for p in t["files"] if p.endswith("REUSE.toml"))
            nfiles = len(t["files"])
        else:
            FP.materialise(root, t["state"])
            ntoml = 2 if t["state"]["gkind"] == "dep5" else 1
            nfiles = len(t["state"]["files"])
        (root / "sub").mkdir(exist_ok=True)
        # a vendored component with a LICENSES/ directory of its own below sub/
        tree.write_tree(root, {"sub/vendored/LICENSES/Zlib.txt": "text\n", "sub/vendored/lib.c": "/* SPDX-FileCopyrightText: 2012 Vendor */\n/* SPDX-License-Identifier: Zlib */\n"})
        results = {}
        spdx_args = ["spdx", "--add-license-concluded", "--creator-person", "V"]

        def record(name, r_lint, r_spdx, cwd):
            if r_lint.crash is not None or r_spdx.crash is not None:
                # a run that ends in an error is an outcome like any other: every variant must end the same way
                # (whether it may crash at all is C16's question); in-process the exception type is known,
                # a fresh interpreter only shows the last line of its traceback
                def kind(r):
                    if r.crash is None:
                        return "ok"
                    t = type(r.crash).__name__
                    return str(r.crash).split(":")[0].strip() if t == "RuntimeError" and ":" in str(r.crash) else t
                results[name] = ({"outcome": kind(r_lint)}, {"outcome": kind(r_spdx)}, r_lint.code)
                return
            if r_lint.code not in (0, 1) or r_spdx.code != 0:
                ctx.fail(c, f"variant {name}: unexpected exit status lint={r_lint.code} spdx={r_spdx.code}: {r_lint.err[-300:]} {r_spdx.err[-300:]}")
            results[name] = (norm_lint(r_lint.out, cwd, root), norm_spdx(r_spdx.out), r_lint.code)

        # serial reference
        record("serial", cli.run(["--no-multiprocessing", "lint", "--json"], root), cli.run(["--no-multiprocessing", *spdx_args], root), root)
        for k in (1, 2, 3, 16):
            with pool_size(k):
                record(f"pool{k}", cli.run(["lint", "--json"], root), cli.run(spdx_args, root), root)
        for n, ps in enumerate(c["perm_seeds"]):
            with permuted_listing(ps):
                record(f"perm{n}-serial", cli.run(["--no-multiprocessing", "lint", "--json"], root), cli.run(["--no-multiprocessing", *spdx_args], root), root)
                with pool_size(2 + n):
                    record(f"perm{n}-pool", cli.run(["lint", "--json"], root), cli.run(spdx_args, root), root)
        # cwd / --root spellings (serial)
        sub = root / "sub"
        for name, cwd, pre in (("sub-dotdot", sub, ["--root", ".."]), ("outside-abs", base, ["--root", str(root)]), ("outside-rel", base, ["--root", rootname]),
                               ("outside-nonnorm", base, ["--root", f"{rootname}/../{rootname}/."]), ("root-dot", root, ["--root", "."])):
            record(name, cli.run([*pre, "--no-multiprocessing", "lint", "--json"], cwd), cli.run([*pre, "--no-multiprocessing", *spdx_args], cwd), cwd)
        # the root reached through a symbolic link and '..': 'other/lnk/..' with lnk -> <root>/sub is the root itself (the kernel resolves
        # the link first), whereas tidying the spelling up lexically gives 'other'
        (base / "other").mkdir()
        os.symlink(os.path.join("..", rootname, "sub"), base / "other" / "lnk")
        record("outside-link-dotdot", cli.run(["--root", "other/lnk/..", "--no-multiprocessing", "lint", "--json"], base),
               cli.run(["--root", "other/lnk/..", "--no-multiprocessing", *spdx_args], base), base)
        # hash seeds: fresh interpreters
        for hs in c["hashseeds"]:
            record(f"hashseed{hs}", cli.run_sub(["--no-multiprocessing", "lint", "--json"], root, hashseed=hs),
                   cli.run_sub(["--no-multiprocessing", *spdx_args], root, hashseed=hs), root)
        # inside a Git work tree the root is found from any working directory below it, also from one that looks like a project of
        # its own (it holds a LICENSES/ directory); these runs are compared with one another
        git_results = {}
        if True:
            tree.git_init(root)
            for name, cwd in (("git:cwd=root", root), ("git:cwd=sub", sub), ("git:cwd=sub/vendored", sub / "vendored")):
                rl, rs = cli.run(["--no-multiprocessing", "lint", "--json"], cwd), cli.run(["--no-multiprocessing", *spdx_args], cwd)
                if rl.crash is not None or rs.crash is not None or rl.code not in (0, 1) or rs.code != 0:
                    git_results[name] = ({"outcome": type(rl.crash).__name__ if rl.crash else rl.code}, {"outcome": type(rs.crash).__name__ if rs.crash else rs.code}, rl.code)
                else:
                    git_results[name] = (norm_lint(rl.out, cwd, root), norm_spdx(rs.out), rl.code)
        ctx.count(c["tree"], nontrivial=(ntoml >= 2 or nfiles >= 8) and len(results) >= 10,
                  labels=[f"tree:{t['kind']}", f"tomls:{min(ntoml, 4)}", f"variants:{len(results)}"],
                  sample={"kind": t["kind"], "files": sorted(t["files"])[:10] if t["kind"] == "nested" else [f["path"] for f in t["state"]["files"]], "variants": sorted(results)})
        ctx.extra["variant_runs"] = ctx.extra.get("variant_runs", 0) + 2 * len(results)
        ref = results["serial"]
        if rootname == "subprojects":
            # recorded finding: with a root directory that is itself called 'subprojects', spelling the root as '.' or '..'
            # hides that name from the Meson rule.  Accepted only if that spelling is the ONLY thing that matters:
            # each of the two groups of variants must agree internally.
            group_b = {"root-dot", "sub-dotdot", "outside-link-dotdot"}
            a = [v for k, v in results.items() if k not in group_b]
            b = [v for k, v in results.items() if k in group_b]
            if all(x == a[0] for x in a) and all(x == b[0] for x in b) and a[0] != b[0]:
                ctx.fail(c, "root directory named 'subprojects': results with --root . / --root .. differ from those with any other root spelling", "root-dir-named-subprojects")
                return
        gref = git_results.get("git:cwd=root")
        for name, got in list(results.items()) + [(k, v) for k, v in git_results.items()]:
            if name.startswith("git:"):
                ref = gref
            for part, label in ((0, "lint --json"), (1, "spdx"), (2, "lint exit status")):
                if got[part] != ref[part]:
                    a, b = ref[part], got[part]
                    if isinstance(a, dict):
                        keys = [k for k in a if a[k] != b.get(k)]

                        def delta(x, y):
                            if isinstance(x, list) and isinstance(y, list):
                                return {"only in the first": [i for i in x if i not in y][:3], "only in the second": [i for i in y if i not in x][:3]}
                            return (x, y)

                        detail = {k: delta(a[k], b.get(k)) for k in keys[:3]}
                    else:
                        detail = (a, b)
                    ctx.fail(c, f"{label} differs between variant '{'git:cwd=root' if name.startswith('git:') else 'serial'}' and variant '{name}': {json.dumps(detail, ensure_ascii=False, default=str)[:1500]}")
    finally:
        tree.rmtree(base)


def replay(ctx, c):
    check(ctx, c)


def run(ctx):
    q = ctx.tier == "quick"
    hyp_run(ctx, "trees", case(), lambda c: check(ctx, c), 5 if q else 120)
