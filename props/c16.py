"""C16 — Malformed input yields a diagnostic and a defined exit status, never
a crash.

(a) complete table: each REUSE.toml key x each TOML type (root and nested
REUSE.toml); (b) Hypothesis: random TOML documents, syntactically broken TOML,
dep5 with broken stanzas / fields / escapes, invalid UTF-8 in either, dep5 +
REUSE.toml together; (c) covered files, .license siblings and LICENSES/ texts
holding arbitrary bytes, NULs, invalid UTF-8, odd expressions, very long
lines; injected EACCES / vanishing files; (d) every sub-command on each.
Oracle: no exception escapes main; exit status in {0, 1, 2}; a configuration
the tool refuses (exit 2) is named in the message; clearly broken
configuration => exit 2; an unreadable covered file is reported (read error /
missing information) while the other files still are.
"""

import contextlib
import os

from hypothesis import strategies as st

from vlib import cli, faults, fuzzing, tree
from vlib.gen import values as V
from vlib.core import hyp_run
from vlib.gen import project as P

ID = "C16"
LEVEL = "fault_enumeration"
RULE = (
    "(a) ALL (key, TOML type) pairs: keys {version, annotations, path, precedence, SPDX-FileCopyrightText, SPDX-License-Identifier} x 19 value shapes "
    "(string, int, float, bool, date-time, date, time, arrays of each, nested array, empty array, inline table, array of tables, table, absent), in the "
    "root and in a nested REUSE.toml; (b) generated TOML documents (recursive values), truncated / corrupted TOML, dep5 with missing fields, an unparseable License expression (=> exit 2), broken "
    "stanzas, bad escapes, duplicate fields, invalid UTF-8, dep5 + REUSE.toml; (c) covered files / .license siblings / LICENSES texts made of "
    "arbitrary bytes, NULs, invalid UTF-8, a project template (used by annotate) and a .gitmodules (in a Git repository) made of arbitrary bytes or of Jinja2 / git-config token sequences, unparseable or degenerate expressions ('()', '(AND 1'), 200 kB lines, thousands of ignore markers; "
    "read faults (EACCES, vanishing on open, vanishing between the directory listing and the first look at the entry — file or directory) injected per entry.  Every case is run through lint (--json, --lines), lint-file, spdx, annotate, "
    "convert-dep5, download, and lint + spdx once more after a successful convert-dep5; REUSE.toml path values also from glob-ish text over {a b / * \\ . ? [}.  Oracle: no escaping exception, exit in {0,1,2}, exit 2 names the offending file, clearly broken configuration => exit 2, "
    "unreadable covered file => reported and the rest still reported.  Non-trivial = input that is rejected or degraded (exit != 0 or a read error); "
    "distinct by (generator, case content)."
)
ASSUMPTIONS = ["in-process driving: an exception other than SystemExit leaving main() is what a user sees as a traceback"]

KEYS = ["version", "annotations", "path", "precedence", "SPDX-FileCopyrightText", "SPDX-License-Identifier"]
SHAPES = {
    "string": '"abc"', "empty-string": '""', "int": "3", "float": "1.5", "bool": "true", "datetime": "1979-05-27T07:32:00Z", "date": "1979-05-27",
    "time": "07:32:00", "array-str": '["a", "b"]', "array-int": "[1, 2]", "array-float": "[1.5]", "array-bool": "[true]", "array-datetime": "[1979-05-27T07:32:00Z]",
    "nested-array": '[["a"]]', "empty-array": "[]", "mixed-array": '["a", 1]', "inline-table": "{ a = 1 }", "array-of-tables": "[{ a = 1 }]", "absent": None,
}
GOOD = {"version": "1", "path": '"src/**"', "precedence": '"closest"', "SPDX-FileCopyrightText": '"2020 Jane"', "SPDX-License-Identifier": '"MIT"'}


def toml_with(key, shape, table_form=False):
    vals = dict(GOOD)
    lines = []
    v = SHAPES[shape]
    if key == "version":
        vals["version"] = v
    if vals["version"] is not None:
        lines.append(f"version = {vals['version']}")
    if key == "annotations":
        if table_form:
            lines += ["[annotations]", 'path = "src/**"', 'SPDX-License-Identifier = "MIT"']
        elif v is not None:
            lines.append(f"annotations = {v}")
        return "\n".join(lines) + "\n"
    lines.append("[[annotations]]")
    for k in ("path", "precedence", "SPDX-FileCopyrightText", "SPDX-License-Identifier"):
        val = v if k == key else vals[k]
        if val is not None:
            lines.append(f"{k} = {val}")
    return "\n".join(lines) + "\n"


WRONG_SCALARS = {"int", "float", "bool", "datetime", "date", "time", "array-int", "array-float", "array-bool", "array-datetime", "nested-array", "mixed-array"}


def clearly_broken(key, shape, table_form):
    """Configurations no reading of the format accepts (deliberately
    conservative: shapes that could be read as a collection of strings, such as
    an inline table, are not asserted either way)."""
    if key == "version":
        return shape not in ("int", "bool")
    if key == "annotations":
        return table_form or shape in WRONG_SCALARS | {"string", "empty-string", "array-str", "inline-table"}
    if key == "path":
        return shape in WRONG_SCALARS | {"absent", "empty-array"}
    if key == "precedence":
        return shape != "absent"  # "abc" is not a precedence either
    if key in ("SPDX-FileCopyrightText", "SPDX-License-Identifier"):
        return shape in WRONG_SCALARS
    return False


BASE_FILES = {
    "src/a.py": "# SPDX-FileCopyrightText: 2020 A\n# SPDX-License-Identifier: MIT\nprint(1)\n",
    "src/sub/b.py": "print(2)\n",
    "c.txt": "SPDX-FileCopyrightText: 2020 C\nSPDX-License-Identifier: MIT\n",
    "LICENSES/MIT.txt": "MIT text\n",
}

DEP5_GOOD = "Format: https://www.debian.org/doc/packaging-manuals/copyright-format/1.0/\nUpstream-Name: x\n\nFiles: src/*\nCopyright: 2020 Jane\nLicense: MIT\n"


def commands(files, has_dep5, with_download_all=True):
    target = "src/sub/b.py" if "src/sub/b.py" in files else next(iter(files))
    cmds = [["lint"], ["lint", "--json"], ["lint", "--lines"], ["lint-file", "src/a.py", target], ["spdx"], ["spdx", "-o", "bom.spdx"],
            ["annotate", "--copyright", "V", "--license", "MIT", "--year", "2020", *(["--template", "odd"] if ".reuse/templates/odd.jinja2" in files else []), target],
            ["download", "LicenseRef-verif"],
            ["annotate", "--copyright", "V", "--license", "MIT", "--skip-existing", target],
            ["annotate", "--copyright", "V", "--license", "()", target], ["annotate", "--copyright", "V", "--license", "(AND 1", target],
            ["annotate", "--merge-copyrights", "--copyright", "V", "--license", "MIT", "--year", "2021", target],
            # the header goes to the sibling whatever the file holds (the sibling may be unreadable, e.g. a directory)
            ["annotate", "--copyright", "V", "--license", "MIT", "--force-dot-license", target, "src/a.py"],
            # every identifier the covered files use and LICENSES/ lacks (nobody answers at the address the tool is pointed at: each one fails cleanly)
            ["download", "--all"]]
    if not with_download_all:
        cmds = cmds[:-1]
    if has_dep5:
        cmds.append(["convert-dep5"])
    return cmds


@contextlib.contextmanager
def nobody_answers():
    """Point the tool at a local port where nothing listens (connection refused at once, no real network)."""
    import reuse.download as D

    old = D._SPDX_REPOSITORY_BASE_URL
    D._SPDX_REPOSITORY_BASE_URL = "http://127.0.0.1:9/text/"
    try:
        yield
    finally:
        D._SPDX_REPOSITORY_BASE_URL = old


def run_all(ctx, case, files, config_paths=(), expect_usage=False, fault_plan=None, what=""):
    """Materialise *files*, run every command, apply the oracle."""
    root = ctx.fresh_dir()
    outcomes = []
    try:
        tree.write_tree(root, files)
        if ".gitmodules" in files:
            tree.git_init(root)
            # an ignored file whose name is not valid UTF-8
            (root / ".gitignore").write_text("*.o\n")
            with open(os.fsencode(str(root)) + b"/\xff\xfe.o", "wb") as fp:
                fp.write(b"object\n")
        plan = {str(root / p): k for p, k in (fault_plan or {}).items()}
        has_dep5 = ".reuse/dep5" in files
        # (download --all builds the report with a worker pool: only where the identifiers come from generated file contents)
        for cmd in commands(files, has_dep5, with_download_all=case.get("gen") == "content" and case.get("where") in ("file", "dotlicense")):
            # read faults are injected into the reading commands; a file that annotate is asked to rewrite
            # has to be readable and writable (click checks the latter before anything runs)
            with faults.injected(plan if cmd[0] in ("lint", "lint-file", "spdx") else {}), nobody_answers():
                res = cli.run(["--no-multiprocessing", *cmd] if cmd[0] in ("lint", "lint-file", "spdx") else cmd, root)
            outcomes.append((cmd, res))
            if res.crash is not None:
                frame = cli.innermost_reuse_frame(res)
                sig = f"crash:{type(res.crash).__name__}@{frame}"
                ctx.fail(dict(case, command=cmd), f"{what}: `reuse {' '.join(cmd)}` ended in an unhandled {type(res.crash).__name__}: {res.crash} (innermost frame {frame})\n{res.crash_tb[-1200:]}", sig)
                continue
            if res.code not in (0, 1, 2):
                ctx.fail(dict(case, command=cmd), f"{what}: `reuse {' '.join(cmd)}` exit status {res.code}")
            bad_arg = "--license" in cmd and cmd[cmd.index("--license") + 1] in ("()", "(AND 1")
            if bad_arg:
                if res.code != 2:
                    ctx.fail(dict(case, command=cmd), f"{what}: a degenerate --license argument must be a usage error (exit 2): {res.brief()}")
                continue
            if res.code == 2 and config_paths and cmd[0] != "download":
                text = res.err + res.out
                if not any(p in text or os.path.basename(p) in text for p in config_paths):
                    ctx.fail(dict(case, command=cmd), f"{what}: usage/configuration error does not name the file ({config_paths}): {text[-400:]!r}")
            if expect_usage and cmd[0] not in ("download",) and res.code != 2:
                ctx.fail(dict(case, command=cmd), f"{what}: broken configuration, expected exit 2 from `reuse {' '.join(cmd)}`, got {res.brief()}")
        if has_dep5 and outcomes and outcomes[-1][0] == ["convert-dep5"] and outcomes[-1][1].crash is None and outcomes[-1][1].code == 0:
            # second step of the history: the REUSE.toml that convert-dep5 wrote is now the configuration
            for cmd in (["lint"], ["spdx"]):
                res = cli.run(["--no-multiprocessing", *cmd], root)
                outcomes.append((["convert-dep5", "&&", *cmd], res))
                if res.crash is not None:
                    frame = cli.innermost_reuse_frame(res)
                    ctx.fail(dict(case, command=["convert-dep5", "&&", *cmd]), f"{what}: after a successful convert-dep5, `reuse {' '.join(cmd)}` ended in an unhandled {type(res.crash).__name__}: {res.crash} "
                             f"(innermost frame {frame})\n{res.crash_tb[-1200:]}", f"crash:{type(res.crash).__name__}@{frame}")
                elif res.code not in (0, 1, 2):
                    ctx.fail(dict(case, command=cmd), f"{what}: after convert-dep5, `reuse {' '.join(cmd)}` exit status {res.code}")
    finally:
        tree.rmtree(root)
    return outcomes


def check_table(ctx, key, shape, table_form, nested):
    doc = toml_with(key, shape, table_form)
    files = dict(BASE_FILES)
    cfg = "src/REUSE.toml" if nested else "REUSE.toml"
    if nested:
        doc = doc.replace('"src/**"', '"**"')
    files[cfg] = doc
    case = {"gen": "table", "key": key, "shape": shape, "table_form": table_form, "nested": nested}
    broken = clearly_broken(key, shape, table_form)
    out = run_all(ctx, case, files, config_paths=[cfg], expect_usage=broken, what=f"REUSE.toml with {key} as {shape}{' ([annotations] table)' if table_form else ''}")
    ctx.count(case, nontrivial=any(r.code != 0 for _c, r in out), labels=["gen:table", f"key:{key}", f"broken:{broken}"] + sorted({f"exit:{r.code}" for _c, r in out}),
              sample=dict(case, document=doc))


# ---- generated documents ----------------------------------------------------
toml_scalar = st.one_of(
    st.integers(-5, 5).map(str), st.sampled_from(["true", "false", "1.5", "1979-05-27", '""', '"MIT"', '"src/**"', '"closest"', '"override"', '"aggregate"',
                                                   '"MIT AND"', '"()"', '"\\u0000"', "'lit\\eral'", '"a\\nb"', "inf", "nan"]))
toml_value = st.recursive(toml_scalar, lambda ch: st.one_of(st.lists(ch, max_size=3).map(lambda xs: "[" + ", ".join(xs) + "]"),
                                                            st.lists(st.tuples(st.sampled_from(["a", "path", "x"]), ch), max_size=2, unique_by=lambda t: t[0]).map(
                                                                lambda kv: "{ " + ", ".join(f"{k} = {v}" for k, v in kv) + " }")), max_leaves=5)


@st.composite
def toml_doc(draw):
    lines = []
    if draw(st.integers(0, 5)) != 0:
        lines.append(f"version = {draw(st.one_of(st.just('1'), toml_value))}")
    for k in draw(st.lists(st.sampled_from(["SPDX-PackageName", "annotations", "foo", "version"]), max_size=2, unique=True)):
        if not any(ln.startswith(k + " ") for ln in lines):
            lines.append(f"{k} = {draw(toml_value)}")
    for _ in range(draw(st.integers(0, 3))):
        if any(ln.startswith("annotations =") for ln in lines):
            break
        lines.append("[[annotations]]")
        for k in draw(st.lists(st.sampled_from(KEYS[2:] + ["path", "extra"]), max_size=5, unique=True)):
            if k == "path" and draw(st.booleans()):
                # glob-ish text as TOML literal strings (no escaping), alone or in an array
                globs = draw(st.lists(st.text(alphabet="ab/*\\.?[", min_size=0, max_size=6), min_size=1, max_size=3))
                lines.append("path = " + (f"'{globs[0]}'" if len(globs) == 1 else "[" + ", ".join(f"'{g}'" for g in globs) + "]"))
                continue
            lines.append(f"{k} = {draw(st.one_of(toml_value, st.sampled_from(list(GOOD.values()))))}")
    doc = "\n".join(lines) + "\n"
    corrupt = draw(st.sampled_from(["none", "none", "truncate", "garbage", "badutf8", "dup-key", "unclosed"]))
    data = doc.encode()
    if corrupt == "truncate" and len(data) > 3:
        data = data[: draw(st.integers(1, len(data) - 1))]
    elif corrupt == "garbage":
        pos = draw(st.integers(0, len(data)))
        data = data[:pos] + draw(st.sampled_from([b"= =", b"[[", b"]]]", b'"', b"\x00", b"\t=\n", b"{{"])) + data[pos:]
    elif corrupt == "badutf8":
        pos = draw(st.integers(0, len(data)))
        data = data[:pos] + b"\xff\xfe\xc3" + data[pos:]
    elif corrupt == "dup-key":
        data += b"version = 1\nversion = 2\n"
    elif corrupt == "unclosed":
        data += b'[[annotations]]\npath = "abc\n'
    return {"gen": "toml", "data": data, "corrupt": corrupt, "nested": draw(st.booleans())}


def check_toml(ctx, c):
    files = dict(BASE_FILES)
    cfg = "src/REUSE.toml" if c["nested"] else "REUSE.toml"
    files[cfg] = c["data"]
    out = run_all(ctx, c, files, config_paths=[cfg], expect_usage=c["corrupt"] in ("badutf8", "unclosed", "dup-key", "bad-expression"), what=f"generated REUSE.toml ({c['corrupt']})")
    ctx.count(c, nontrivial=any(r.code != 0 for _c, r in out), labels=["gen:toml", f"corrupt:{c['corrupt']}"] + sorted({f"exit:{r.code}" for _c, r in out}),
              sample={"document": c["data"].decode("utf-8", "replace"), "corrupt": c["corrupt"]})


@st.composite
def dep5_doc(draw):
    header = draw(st.sampled_from(["Format: https://www.debian.org/doc/packaging-manuals/copyright-format/1.0/\nUpstream-Name: x\n", "Format: x\n", "", "Upstream-Name: x\n", "Format\n"]))
    paras = []
    for _ in range(draw(st.integers(0, 3))):
        fields = []
        for k in draw(st.permutations(["Files", "Copyright", "License"])):
            mode = draw(st.sampled_from(["ok", "ok", "ok", "missing", "empty", "dup", "weird"]))
            val = {"Files": draw(st.sampled_from(["src/*", "*", "src/a.py c.txt", "a\\b", "\\", "src/**", "?", "[a]", "*.py\n *.txt"])),
                   "Copyright": draw(st.sampled_from(["2020 Jane", "2020 Jane\n 2021 Joe", "", "©"])),
                   "License": draw(st.sampled_from(["MIT", "MIT AND", "()", "MIT\n Full text\n .\n more", "GPL-2.0+ with exception", ""]))}[k]
            if mode == "missing":
                continue
            if mode == "empty":
                val = ""
            if mode == "weird":
                fields.append(f"{k} {val}")
                continue
            fields.append(f"{k}: {val}")
            if mode == "dup":
                fields.append(f"{k}: {val}")
        paras.append("\n".join(fields))
    doc = header + "\n" + "\n\n".join(paras) + "\n"
    data = doc.encode()
    corrupt = draw(st.sampled_from(["none", "none", "badutf8", "nul", "crlf"]))
    if corrupt == "badutf8":
        data = data.replace(b"Jane", b"J\xe4ne\xff", 1) if b"Jane" in data else data + b"\xff"
    elif corrupt == "nul":
        data = data.replace(b"\n", b"\x00\n", 1)
    elif corrupt == "crlf":
        data = data.replace(b"\n", b"\r\n")
    return {"gen": "dep5", "data": data, "corrupt": corrupt, "with_toml": draw(st.sampled_from([False, False, False, False, "root", "nested", "deep"]))}


def check_dep5(ctx, c):
    files = dict(BASE_FILES)
    files[".reuse/dep5"] = c["data"]
    cfgs = [".reuse/dep5"]
    if c["with_toml"]:
        where = {"root": "REUSE.toml", True: "REUSE.toml", "nested": "src/REUSE.toml", "deep": "src/sub/REUSE.toml"}[c["with_toml"]]
        files[where] = "version = 1\n"
        cfgs.append(where)
    out = run_all(ctx, c, files, config_paths=cfgs, expect_usage=c["with_toml"] or c["corrupt"] == "badutf8" or bool(c.get("bad_license")), what=f"generated dep5 ({c['corrupt']}{', with REUSE.toml' if c['with_toml'] else ''})")
    ctx.count(c, nontrivial=any(r.code != 0 for _c, r in out), labels=["gen:dep5", f"corrupt:{c['corrupt']}", f"with_toml:{c['with_toml']}"] + sorted({f"exit:{r.code}" for _c, r in out}),
              sample={"document": c["data"].decode("utf-8", "replace")})


ODD_CONTENT = [
    b"\xff\xfe\x00\x01binary-ish", b"SPDX-License-Identifier: ()\n", b"SPDX-License-Identifier: ( )\nSPDX-FileCopyrightText: x\n", b"SPDX-License-Identifier: (AND 1\n",
    b"SPDX-License-Identifier: MIT AND\n", b"caf\xe9 latin-1 text\nSPDX-License-Identifier: MIT\n", b"\xef\xbb\xbf# SPDX-License-Identifier: MIT\n", b"\x00",
    b"SPDX-FileCopyrightText: " + b"x" * 200000 + b"\n", b"# " + b"REUSE-IgnoreStart REUSE-IgnoreEnd " * 3000 + b"\nSPDX-SnippetBegin\n",
    b"SPDX-License-Identifier: MIT\r\n\r\n\rmixed\n", b"SPDX-License-Identifier: \xf0\x9f\x98\x80\n", b"SPDX-License-Identifier: MIT WITH\n", b"text with \xc3\x28 invalid utf8\n",
    b"# SPDX-License-Identifier: ()\nprint(1)\n", b"# SPDX-FileCopyrightText: 2020 X\n# SPDX-License-Identifier: (AND 1\n\nprint(1)\n",
    b"# SPDX-FileCopyrightText: 2020 Jos\xe9 Garc\xeda\n# SPDX-License-Identifier: MIT\nprint(1)\n", b"# SPDX-FileContributor: Andr\xe9\n# SPDX-License-Identifier: MIT\n",
    b"SPDX-License-Identifier: a:b\n", b"SPDX-FileCopyrightText:\nSPDX-License-Identifier:\n", b"SPDX-License-Identifier: +\n",
    # well-formed but nested hundreds of levels deep (rendering, comparing or pickling such an expression exhausts the stack)
    b"# SPDX-FileCopyrightText: 2020 D\n# SPDX-License-Identifier: MIT" + b" OR (MIT" * 400 + b")" * 400 + b"\n",
    b"# SPDX-FileCopyrightText: 2020 D\n# SPDX-License-Identifier: MIT" + b" OR (ISC AND (MIT" * 300 + b"))" * 300 + b"\n",
    b"# SPDX-License-Identifier: " + b"(" * 1500 + b"MIT" + b")" * 1500 + b"\n# SPDX-SnippetBegin\n",
    # notices whose prefixes the reader accepts and the table of writable prefixes does not list (merging has to cope)
    b"# Copyright (c) 2019 Jane Doe\n# SPDX-FileCopyrightText: (c) 2018 Jane Doe\n# Copyright\t(C) 2017 V\n# SPDX-License-Identifier: MIT\nprint(1)\n",
    # identifiers that no file name or URL can carry
    "# SPDX-FileCopyrightText: 2020 U\n# SPDX-License-Identifier: Ünï-1.0\n".encode(), b"# SPDX-FileCopyrightText: 2020 L\n# SPDX-License-Identifier: " + b"a" * 300 + b"\n",
    b"# SPDX-FileCopyrightText: 2020 S\n# SPDX-License-Identifier: LicenseRef-" + b"b" * 300 + b"\n",
]


JINJA_TOKENS = ["{{ ", " }}", "{% ", " %}", "{# ", " #}", "for x in ", "copyright_lines", "spdx_expressions", "contributor_lines", "endfor", "if ", "endif", "x", "nope", ".attr",
                "()", "1", " / 0", " | ", "join", "upper", "\n", "SPDX-License-Identifier: ", "{{ expression }}", "{% for expression in spdx_expressions %}", "{% endfor %}", "{% for copyright_line in copyright_lines %}",
                "{{ copyright_line }}", "'", "[0]", "é"]
GITCONFIG_TOKENS = ['[submodule "a"]\n', "[submodule]\n", '[submodule "b c"]\n', "\tpath = sub\n", "\tpath =\n", "\tpath\n", "\tpath = src/sub\n", "\tpath = ../out\n", "\tpath = /abs\n", "\turl = https://example.org/x.git\n",
                    "[core]\n", "\tpath = \"quo ted\"\n", "[submodule \"a\"\n", "\tpath = a\\\n", "garbage\n", "\tpath = é\n", "= x\n", "[\n", "\tpath = \udcff\udcfe\n"]


@st.composite
def content_case(draw):
    where = draw(st.sampled_from(["file", "file", "dotlicense", "licenses", "template", "template", "gitmodules", "dotlicense-dir"]))
    if where == "template" and draw(st.booleans()):
        data = "".join(draw(st.lists(st.sampled_from(JINJA_TOKENS), min_size=1, max_size=10))).encode()
    elif where == "gitmodules" and draw(st.integers(0, 3)) != 0:
        data = "".join(draw(st.lists(st.sampled_from(GITCONFIG_TOKENS), min_size=1, max_size=8))).encode("utf-8", "surrogateescape")
    else:
        data = draw(st.one_of(st.sampled_from(ODD_CONTENT), st.binary(min_size=1, max_size=200),
                          st.binary(min_size=1, max_size=60).map(lambda b: b"SPDX-License-Identifier: " + b + b"\n"),
                          st.text(alphabet="()ANDORWITH MIT+-.:", min_size=1, max_size=20).map(lambda s: f"# SPDX-License-Identifier: {s}\n".encode())))
    fault = draw(st.sampled_from([None, None, None, "eacces", "vanish", "vanish-listed", "vanish-listed-2"]))
    fault_on = draw(st.sampled_from(["src/a.py", "src/sub/b.py", "c.txt", "LICENSES/MIT.txt"] + (["src/sub", "src/sub/b.py"] if fault in ("vanish-listed", "vanish-listed-2") else [])))
    return {"gen": "content", "where": where, "data": data, "fault": fault, "fault_on": fault_on}


def check_content(ctx, c):
    files = dict(BASE_FILES)
    if c["where"] == "file":
        files["src/sub/b.py"] = c["data"]
    elif c["where"] == "dotlicense":
        files["src/sub/b.py.license"] = c["data"]
    elif c["where"] == "dotlicense-dir":
        # FILE.license is a directory (holding the odd bytes): FILE cannot be read through its sibling, the others can
        files["src/sub/b.py"] = "# SPDX-FileCopyrightText: 2020 B\n# SPDX-License-Identifier: MIT\n"
        files["src/sub/b.py.license/inner.txt"] = c["data"]
    elif c["where"] == "licenses":
        files["LICENSES/LicenseRef-odd.txt"] = c["data"]
        files["src/sub/b.py"] = "# SPDX-FileCopyrightText: 2020 B\n# SPDX-License-Identifier: LicenseRef-odd\n"
    elif c["where"] == "gitmodules":
        files[".gitmodules"] = c["data"]
    else:
        files[".reuse/templates/odd.jinja2"] = c["data"]
    plan = {c["fault_on"]: c["fault"]} if c["fault"] else None
    out = run_all(ctx, c, files, fault_plan=plan, what=f"odd bytes in {c['where']}" + (f", {c['fault']} on {c['fault_on']}" if c["fault"] else ""))
    # the other files are still reported
    for cmd, res in out:
        if c["fault"] and cmd[0] in ("lint", "spdx") and res.crash is None and res.code == 2:
            ctx.fail(dict(c, command=cmd), f"{c['fault']} on {c['fault_on']} (no configuration file involved) made `reuse {' '.join(cmd)}` a usage error instead of a report: {(res.err + res.out)[-300:]!r}")
        if cmd == ["lint", "--json"] and res.crash is None and res.code in (0, 1):
            import json

            try:
                data = json.loads(res.out)
            except ValueError:
                ctx.fail(c, f"lint --json printed no JSON: {res.out[:200]!r}")
            seen = {f["path"] for f in data["files"]} | {os.path.relpath(e, os.path.dirname(os.path.dirname(e))) if False else e for e in data["non_compliant"]["read_errors"]}
            names = " ".join(seen)
            for must in ("a.py", "c.txt", "b.py"):
                if c["where"] == "gitmodules" and must == "b.py" and b"sub" in c["data"]:
                    continue  # src/sub may then be a submodule, whose files are not covered
                gone = c["fault"] in ("vanish", "vanish-listed", "vanish-listed-2") and (must in c["fault_on"] or (must == "b.py" and c["fault_on"] == "src/sub"))
                if must not in names and not gone:
                    ctx.fail(c, f"{must} is neither reported as a file nor as a read error: files/read errors {sorted(seen)}")
            shadowed = c["where"] == "dotlicense" and c["fault_on"] == "src/sub/b.py"  # the sibling is read instead
            if c["where"] == "gitmodules" and c["fault_on"] == "src/sub/b.py" and b"sub" in c["data"]:
                shadowed = True  # src/sub may be a submodule: its files are not covered, hence never opened
            if c["fault"] == "eacces" and c["fault_on"] != "LICENSES/MIT.txt" and not shadowed:
                if not any(c["fault_on"] in e for e in data["non_compliant"]["read_errors"]):
                    ctx.fail(c, f"unreadable {c['fault_on']} is not listed under read errors: {data['non_compliant']['read_errors']}")
    ctx.count(c, nontrivial=any(r.code != 0 for _c, r in out), labels=["gen:content", f"where:{c['where']}", f"fault:{c['fault']}"] + sorted({f"exit:{r.code}" for _c, r in out}),
              sample={"where": c["where"], "data": c["data"][:80], "fault": c["fault"], "fault_on": c["fault_on"]})


def replay(ctx, c):
    if "fuzz" in c:
        return fuzzing.replay(ctx, c)
    c = {k: v for k, v in c.items() if k != "command"}
    if c["gen"] == "table":
        check_table(ctx, c["key"], c["shape"], c["table_form"], c["nested"])
    elif c["gen"] == "toml":
        check_toml(ctx, c)
    elif c["gen"] == "dep5":
        check_dep5(ctx, c)
    else:
        check_content(ctx, c)


def run(ctx):
    q = ctx.tier == "quick"
    jobs = [(k, s, False, n) for k in KEYS for s in SHAPES for n in (False, True)] + [("annotations", "absent", True, n) for n in (False, True)]
    for i, (k, s, tf, n) in enumerate(jobs):
        if i % ctx.nshards == ctx.shard:
            check_table(ctx, k, s, tf, n)
    ctx.extra["exhaustive_subspaces"] = [f"{len(KEYS)} keys x {len(SHAPES)} value shapes x {{root, nested}} REUSE.toml + [annotations] as a table = {len(jobs)} documents x 7 commands"]
    for i, data in enumerate(ODD_CONTENT):
        for j, where in enumerate(["file", "dotlicense", "licenses"]):
            if (i * 3 + j) % ctx.nshards == ctx.shard:
                check_content(ctx, {"gen": "content", "where": where, "data": data, "fault": None, "fault_on": "c.txt"})
    # a well-formed dep5 whose License field is not an SPDX expression is a broken configuration file
    deep = "MIT" + " OR (MIT" * 400 + ")" * 400  # well-formed, but it cannot be rendered or pickled (stack)
    bad = list(V.INVALID_EXPRESSIONS) + ["()", "(AND 1", "GPL-2.0+*with exception", "", deep]
    # the same expressions in a REUSE.toml (root and nested)
    for i, expr in enumerate([deep, "MIT" + " OR (ISC AND (MIT" * 300 + "))" * 300, "()", "MIT AND"]):
        for j, nested in enumerate((False, True)):
            if (i * 2 + j) % ctx.nshards == ctx.shard:
                doc = f'version = 1\n\n[[annotations]]\npath = "**"\nSPDX-FileCopyrightText = "2020 A"\nSPDX-License-Identifier = "{expr}"\n'
                # (an expression that merely is too deep need not be refused: it must not end in a traceback)
                check_toml(ctx, {"gen": "toml", "data": doc.encode(), "corrupt": "bad-expression" if len(expr) < 20 else "deep-expression", "nested": nested})
    for i, expr in enumerate(bad):
        for j, second in enumerate((False, True)):
            if (i * 2 + j) % ctx.nshards == ctx.shard:
                doc = "Format: https://www.debian.org/doc/packaging-manuals/copyright-format/1.0/\nUpstream-Name: x\n\n"
                doc += (f"Files: c.txt\nCopyright: 2020 A\nLicense: MIT\n\nFiles: src/*\nCopyright: 2020 B\nLicense: {expr}\n" if second else f"Files: *\nCopyright: 2020 A\nLicense: {expr}\n Body text\n .\n more\n")
                check_dep5(ctx, {"gen": "dep5", "data": doc.encode(), "corrupt": "none", "with_toml": False, "bad_license": expr})
    # REUSE.toml documents that are hard on a parser: values nested hundreds of levels deep, an integer of thousands of digits
    hard = [("deep-array", "version = 1\nx = " + "[" * 600 + "]" * 600 + "\n"), ("deep-inline-table", "version = 1\nx = " + "{a = " * 400 + "1" + "}" * 400 + "\n"),
            ("huge-integer", "version = 1\nx = " + "9" * 5000 + "\n"), ("huge-integer-as-version", "version = " + "1" * 5000 + "\n"),
            ("deep-array-in-annotations", 'version = 1\n[[annotations]]\npath = ' + "[" * 500 + '"a"' + "]" * 500 + '\nSPDX-FileCopyrightText = "x"\nSPDX-License-Identifier = "MIT"\n')]
    for i, (kind, doc) in enumerate(hard):
        for j, nested in enumerate((False, True)):
            if (i * 2 + j + 3) % ctx.nshards == ctx.shard:
                check_toml(ctx, {"gen": "toml", "data": doc.encode(), "corrupt": kind, "nested": nested})
    hyp_run(ctx, "toml", toml_doc(), lambda c: check_toml(ctx, c), 120 if q else 2500)
    hyp_run(ctx, "dep5", dep5_doc(), lambda c: check_dep5(ctx, c), 120 if q else 2500)
    hyp_run(ctx, "content", content_case(), lambda c: check_content(ctx, c), 150 if q else 4000)
    # coverage-guided stage (atheris): the loaders and the header functions in-process, oracle inside the target
    for target, runs in (("toml", 4000 if q else 250000), ("dep5", 3000 if q else 150000), ("content", 1500 if q else 80000)):
        fuzzing.run_stage(ctx, target, runs)
