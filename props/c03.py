"""C03 — Exactly the covered files are examined.

Generated trees with names on both sides of each exclusion rule, every node
kind, optional Git layer (ignore rules, tracked / force-added files, manual
submodules), every combination of --include-submodules /
--include-meson-subprojects.  Oracle: vlib.ref.covered + Git's own
`check-ignore`.  Four observations must each equal the COVERED set: lint
--json, spdx, lint-file on every path, annotate -r on a throw-away copy.
"""

import hashlib
import os
import re
from pathlib import Path

from hypothesis import strategies as st

from vlib import cli, tree
from vlib.core import hyp_run
from vlib.gen import trees as GT
from vlib.ref import covered as RC

ID = "C03"
LEVEL = "exploration"
RULE = (
    "Trees of 3..22 nodes, depth <= 3, names drawn from a pool straddling every exclusion rule (LICENSE, LICENSE-MIT, LICENSEX, COPYING.md, "
    "x.license, a.spdx.json, a.spdxx, a.spdx_json, REUSE.toml, .hgtags, ...) and ordinary names (spaces, non-ASCII), kinds text / empty / binary / "
    "symlink (to file, directory, dangling, outside), directories LICENSES, .reuse, .hg, .sl, subprojects at any depth; half the trees are Git "
    "repositories with generated .gitignore rules (names, anchored paths, directory rules, globs, negations, nested files), tracked and force-added "
    "files, a rule in the user's own excludes file (core.excludesFile) and manual submodules; all four flag combinations; plus two directed trees (submodule directly below subprojects/, nested look-alike directories) under every flag combination.  Expected = reference model + `git check-ignore`.  Observed four ways: lint --json "
    "(files + read errors), spdx FileName, lint-file on every path, files modified by annotate -r on a copy.  Non-trivial = tree has >= 1 covered and "
    ">= 1 excluded path; distinct by tree content + flags."
)
ASSUMPTIONS = [
    "vlib/ref/covered.py states the rule; nested LICENSES/.reuse/subprojects directories and submodule-internal ignore rules are UNSPECIFIED (no assertion)",
    "git check-ignore is the VCS oracle (a different git command than the one the tool uses)",
]

FLAGSETS = [(), ("--include-submodules",), ("--include-meson-subprojects",), ("--include-submodules", "--include-meson-subprojects")]
case_strategy = st.tuples(GT.tree_spec(), st.sampled_from(FLAGSETS), st.booleans(), st.lists(st.integers(0, 1000), min_size=1, max_size=3),
                          st.integers(0, 3).map(lambda k: k == 0),  # project root below the top of the Git work tree
                          st.integers(0, 3).map(lambda k: k == 0))  # commands run from an unrelated working directory with --root <absolute>


def expected(root: Path, spec, flags):
    paths = GT.all_paths(root)
    g = spec.get("git")
    submods = g["submodules"] if g else []
    rels = [p for p, _k, _s in paths]
    outside_sub = [p for p in rels if not any(p == sm or p.startswith(sm + "/") for sm in submods)]
    ignored = GT.git_ignored(root, outside_sub + list(submods)) if g else set()
    # paths below a symlinked directory cannot occur (scandir does not follow)
    verdicts = {}
    for p, kind, size in paths:
        in_sub = any(p.startswith(sm + "/") for sm in submods)
        v, why = RC.classify(
            p, kind, size,
            include_meson="--include-meson-subprojects" in flags,
            vcs_ignored=p in ignored,
            in_submodule=in_sub,
            include_submodules="--include-submodules" in flags,
        )
        if in_sub and v == RC.COVERED:
            # inside an included submodule: the superproject's ignore rules do not
            # apply to its content (Git itself does not apply them); a submodule
            # directory that the superproject ignores is a contradictory set-up
            if any(p.startswith(sm + "/") and sm in ignored for sm in submods):
                v, why = RC.UNSPEC, "ignored-submodule"
        if g and p == ".gitmodules" and v == RC.COVERED:
            pass
        name = p.rsplit("/", 1)[-1]
        if v == RC.COVERED and RC.is_cal_shl(name):
            why = "cal-shl-name"
        verdicts[p] = (v, why)
    return verdicts


def rel(root: Path, s: str, cwd: Path) -> str:
    p = Path(s)
    if not p.is_absolute():
        p = cwd / p
    return os.path.relpath(p, root)


def snapshot(root: Path):
    snap = {}
    for p, kind, _size in GT.all_paths(root):
        f = root / p
        if kind == "symlink":
            snap[p] = ("l", os.readlink(f))
        elif kind == "special":
            snap[p] = ("s",)
        else:
            snap[p] = ("f", hashlib.sha1(f.read_bytes()).hexdigest())
    return snap


_QUOTED = re.compile(r"'([^'\n]+)'")


def mentioned(out: str, root: Path, cwd: Path):
    """Files annotate talks about on stdout (errors, skips): they were
    examined even though they were not modified."""
    res = set()
    for m in _QUOTED.finditer(out):
        p = m.group(1)
        q = Path(p) if os.path.isabs(p) else cwd / p
        if os.path.lexists(q):
            r = os.path.relpath(q, root)
            res.add(r[: -len(".license")] if r.endswith(".license") and os.path.lexists(root / r[: -len(".license")]) else r)
    return res


_LINTFILE = re.compile(r"^(.*): (no license identifier|no copyright notice|read error|missing license .*)$")


def check_tree(ctx, case):
    spec, flags, mp = case[:3]
    picks = case[3] if len(case) > 3 else [0]
    nested = bool(len(case) > 4 and case[4] and spec["git"])
    outside = bool(len(case) > 5 and case[5] and not nested)
    base = ctx.fresh_dir()
    root = base
    elsewhere = None
    copy = None
    copy2 = None
    copybase = copybase2 = None
    try:
        if nested:
            # monorepo layout: the Git work tree starts one level above the project root; reuse is told --root .
            spec = dict(spec, git=dict(spec["git"], submodules=[]))
            root = base / "pkg"
            root.mkdir()
            GT.materialise(root, spec, git_top=base)
            flags = tuple(flags) + ("--root", ".")
        else:
            GT.materialise(root, spec)
            if spec.get("gitfile") and spec["git"]:
                # the work tree's .git is a FILE that points at the repository (git worktree add, git init --separate-git-dir)
                import shutil

                gitdir = ctx.fresh_dir("gitdir")
                os.rmdir(gitdir)
                shutil.move(str(root / ".git"), str(gitdir))
                (root / ".git").write_text(f"gitdir: {gitdir}\n")
                ctx.label("git:.git-is-a-file")
        copy_flags = tuple(flags)  # the annotate observations run inside their own copy of the tree
        run_cwd = root
        if outside:
            elsewhere = ctx.fresh_dir("elsewhere")
            run_cwd = elsewhere
            flags = tuple(flags) + ("--root", str(root))
        if spec["git"]:
            # a rule that lives in the user's own excludes file (core.excludesFile), not in the repository
            gdir = ctx.scratch / "gitglobal"
            gdir.mkdir(exist_ok=True)
            (gdir / "ignore").write_text("*.gex\n")
            (gdir / "config").write_text(f"[core]\n\texcludesFile = {gdir / 'ignore'}\n")
            os.environ["GIT_CONFIG_GLOBAL"] = str(gdir / "config")
            (root / "user-level.gex").write_text("ignored by the user's excludes file\n")
        else:
            os.environ["GIT_CONFIG_GLOBAL"] = "/dev/null"
        verdicts = expected(root, spec, flags)
        cov = {p for p, (v, _w) in verdicts.items() if v == RC.COVERED}
        exc = {p for p, (v, _w) in verdicts.items() if v == RC.EXCLUDED}
        unspec = {p for p, (v, _w) in verdicts.items() if v == RC.UNSPEC}
        calshl = {p for p, (v, w) in verdicts.items() if w == "cal-shl-name"}
        cdict = {"nodes": spec["nodes"], "git": spec["git"], "flags": [f for f in flags if f.startswith("--include")], "mp": mp, "picks": list(picks), "nested": nested, "outside": outside}
        labels = [f"git:{bool(spec['git'])}", f"flags:{' '.join(f for f in flags if f.startswith('--include')) or '-'}", f"root-below-worktree-top:{nested}", f"cwd-outside:{outside}"]
        labels += sorted({f"rule:{w}" for (_v, w) in verdicts.values()})
        if spec["git"] and spec["git"]["submodules"]:
            labels.append("has-submodule")
            if any(sm.startswith("subprojects/") for sm in spec["git"]["submodules"]):
                labels.append("submodule-under-subprojects")
        ctx.count(cdict, nontrivial=bool(cov and exc), labels=labels,
                  sample={"paths": {p: v for p, (v, _w) in sorted(verdicts.items())}, "git": spec["git"], "flags": list(flags)})
        ctx.extra["paths_unspecified"] = ctx.extra.get("paths_unspecified", 0) + len(unspec)
        ctx.extra["paths_judged"] = ctx.extra.get("paths_judged", 0) + len(cov) + len(exc)

        def judge(observed, what):
            observed = set(observed) - unspec
            missing = cov - observed
            extra = observed - cov
            if missing or extra:
                sig = ""
                if not extra and missing and missing <= calshl:
                    sig = "cal-shl-names-skipped"
                why = {p: verdicts.get(p, ("?", "not-in-tree")) for p in sorted(missing | extra)}
                ctx.fail(cdict, f"{what}: covered files skipped: {sorted(missing)}; excluded files examined: {sorted(extra)}; model says {why}", sig)

        # 1. lint --json
        res, data = tree.lint_json(root, extra=flags, mp=mp, cwd=run_cwd)
        if data is None:
            ctx.fail(cdict, f"lint --json failed: {res.brief()}")
        read_errors = {rel(root, e, run_cwd) for e in data["non_compliant"]["read_errors"]}
        obs = {f["path"] for f in data["files"]} | read_errors
        judge(obs, "lint --json")
        # 2. spdx
        res = cli.run([*flags, "--no-multiprocessing", "spdx"], run_cwd)
        if res.crash is not None or res.code != 0:
            ctx.fail(cdict, f"spdx failed: {res.brief()}")
        obs = {ln[len("FileName: ./"):] for ln in res.out.splitlines() if ln.startswith("FileName: ./")}
        # a covered file that could not be read (lint lists it under read errors) has no File section; that is not a coverage question
        judge(obs | read_errors, "spdx")
        # 3. lint-file on every existing path
        # (a symlink that resolves outside the root is a usage error for lint-file: not passed)
        rroot = root.resolve()
        args = [p for p in verdicts if os.path.exists(root / p) and (root / p).resolve().is_relative_to(rroot)]
        if args:
            res = cli.run([*flags, "--no-multiprocessing", "lint-file", "--", *([str(root / a) for a in args] if outside else args)], run_cwd)
            if res.crash is not None or res.code not in (0, 1):
                ctx.fail(cdict, f"lint-file failed: {res.brief()}")
            obs = set()
            for ln in res.out.splitlines():
                m = _LINTFILE.match(ln)
                if m:
                    obs.add(rel(root, m[1], run_cwd))
            judge(obs, "lint-file <every path>")
            if not outside and not nested and "--root" not in flags:
                # 3b. the same through a root whose path has a symbolic link in it
                ldir = ctx.fresh_dir("lnk")
                os.symlink(str(root), ldir / "via")
                res = cli.run([*flags, "--root", str(ldir / "via"), "--no-multiprocessing", "lint-file", "--", *[str(ldir / "via" / a) for a in args]], ldir)
                if res.crash is not None or res.code not in (0, 1):
                    ctx.fail(cdict, f"lint-file through a symlinked root failed: {res.brief()}")
                obs2 = set()
                for ln in res.out.splitlines():
                    m = _LINTFILE.match(ln)
                    if m:
                        obs2.add(os.path.relpath(os.path.realpath(m[1] if os.path.isabs(m[1]) else ldir / m[1]), os.path.realpath(root)))
                if obs2 != obs:
                    ctx.fail(cdict, f"lint-file reports different files through a symlinked root: only there {sorted(obs2 - obs)}, only directly {sorted(obs - obs2)}")
                ctx.label("lint-file:symlinked-root")
        # 4. annotate -r . on a throw-away copy
        copybase = ctx.fresh_dir("copy")
        os.rmdir(copybase)
        GT.copytree(base, copybase)
        copy = copybase / "pkg" if nested else copybase
        before = snapshot(copy)
        res = cli.run([*copy_flags, "annotate", "--copyright", "Verif", "--license", "MIT", "--year", "2020", "--fallback-dot-license", "-r", "."], copy)
        if res.crash is not None:
            ctx.label("annotate-crashed")
        elif res.code == 2:
            ctx.fail(cdict, f"annotate -r . refused: {res.brief()}")
        else:
            after = snapshot(copy)
            obs = set()
            for p in set(before) | set(after):
                if before.get(p) != after.get(p):
                    if p.endswith(".license") and p[: -len(".license")] in after:
                        obs.add(p[: -len(".license")])
                    else:
                        obs.add(p)
            judge(obs | mentioned(res.out, copy, copy), "annotate -r .")
        # 5. annotate -r on chosen sub-directories (including excluded ones: LICENSES/, .reuse/, ignored
        #    directories, subprojects, submodules): only the covered files below them may change
        alldirs = sorted({"/".join(p.split("/")[:i]) for p in verdicts for i in range(1, p.count("/") + 1)})
        alldirs = [d for d in alldirs if not os.path.islink(root / d) and os.path.isdir(root / d)]
        if alldirs and res.crash is None:
            chosen = sorted({alldirs[i % len(alldirs)] for i in picks})
            copybase2 = ctx.fresh_dir("copy")
            os.rmdir(copybase2)
            GT.copytree(base, copybase2)
            copy2 = copybase2 / "pkg" if nested else copybase2
            before = snapshot(copy2)
            res = cli.run([*copy_flags, "annotate", "--copyright", "Verif", "--license", "MIT", "--year", "2020", "--fallback-dot-license", "-r", *chosen], copy2)
            if res.crash is None and res.code != 2:
                after = snapshot(copy2)
                obs = set()
                for p in set(before) | set(after):
                    if before.get(p) != after.get(p):
                        if p.endswith(".license") and p[: -len(".license")] in after:
                            obs.add(p[: -len(".license")])
                        else:
                            obs.add(p)
                below = lambda p: any(p.startswith(d + "/") for d in chosen)  # noqa: E731
                want = {p for p in cov if below(p)}
                obs |= mentioned(res.out, copy2, copy2)
                obs -= unspec
                if obs != want:
                    why = {p: verdicts.get(p, ("?", "not-in-tree")) for p in sorted(obs ^ want)}
                    sig = "cal-shl-names-skipped" if (want - obs) and not (obs - want) and (want - obs) <= calshl else ""
                    ctx.fail(cdict, f"annotate -r {chosen}: modified {sorted(obs)}, covered files below those directories {sorted(want)}; model says {why}", sig)
                ctx.label("annotate-r-subdirs")
    finally:
        tree.rmtree(base)
        if elsewhere is not None and elsewhere.exists():
            tree.rmtree(elsewhere)
        if copybase is not None and copybase.exists():
            tree.rmtree(copybase)
        if copybase2 is not None and copybase2.exists():
            tree.rmtree(copybase2)


def replay(ctx, case):
    spec = {"nodes": {k: tuple(v) for k, v in case["nodes"].items()}, "git": case["git"]}
    check_tree(ctx, (spec, tuple(case["flags"]), case.get("mp", False), case.get("picks", [0, 1, 2]), case.get("nested", False), case.get("outside", False)))


# Directed trees: the rarest interactions of the exclusion rules, under every flag combination (so that they are met at every seed)
DIRECTED = [
    # a Git submodule directly below subprojects/, another one elsewhere, an ordinary Meson subproject, an ignored directory
    {"nodes": {"src/x.py": ("text", b"x = 1\n"), "subprojects/build/a.py": ("text", b"x = 1\n"), "subprojects/build/sub/b.txt": ("text", b"hello\n"),
               "subprojects/plain/c.py": ("text", b"x = 1\n"), "libs/sm/y.py": ("text", b"x = 1\n"), "libs/sm/LICENSE": ("text", b"hello\n"),
               "out/gen.py": ("text", b"x = 1\n"), "README.md": ("text", b"hello\n"), "subprojects/dl-1.3/inflate.c": ("text", b"x = 1\n"), "subprojects/dl-1.3/contrib/puff.c": ("text", b"x = 1\n")},
     "git": {"ignore": {"": ["out/", "/subprojects/dl-1.3/"]}, "tracked": ["src/x.py"], "forced": [], "submodules": ["subprojects/build", "libs/sm"], "exclude": []}},
    # no VCS: subprojects at two depths, LICENSES and .reuse look-alikes below a sub-directory
    {"nodes": {"a.py": ("text", b"x = 1\n"), "subprojects/p/a.py": ("text", b"x = 1\n"), "d/subprojects/q/b.py": ("text", b"x = 1\n"), "d/LICENSES/MIT.txt": ("text", b"hello\n"),
               "d/.reuse/dep5": ("text", b"hello\n"), "LICENSES/MIT.txt": ("text", b"hello\n"), "d/x.license": ("text", b"hello\n"), "d/COPYING.md": ("text", b"hello\n")},
     "git": None},
    # names on both sides of the rules: directories named like excluded FILES (their contents are covered), files and directories whose names
    # merely start like an ignored directory's, an ignored file pattern next to look-alikes
    {"nodes": {"COPYING.d/a.txt": ("text", b"hello\n"), "src/LICENSE/notes.py": ("text", b"x = 1\n"), "export.spdx/data.txt": ("text", b"hello\n"), "x.license/y.py": ("text", b"x = 1\n"),
               "build/gen.py": ("text", b"x = 1\n"), "build.py": ("text", b"x = 1\n"), "build-tools/t.py": ("text", b"x = 1\n"), "buildx": ("text", b"hello\n"),
               "var/cache/c.bin": ("binary", b"\x00\x01\x02\xff\xfebin\x00"), "var/cache_key.py": ("text", b"x = 1\n"), "docs/node_modules.md": ("text", b"hello\n"),
               "node_modules/m/i.js": ("text", b"x = 1\n"), "tmp.log": ("text", b"hello\n"), "tmp.logs": ("text", b"hello\n"), "README.md": ("text", b"hello\n")},
     "git": {"ignore": {"": ["build/", "/var/cache", "node_modules/", "*.log"]}, "tracked": ["README.md"], "forced": [], "submodules": [], "exclude": []}},
    # two names of one inode (hard links, as some vendoring / de-duplication tools leave them): each name is a covered file
    {"nodes": {"src/util.py": ("text", b"x = 1\n"), "src/util_alias.py": ("hardlink", "src/util.py"), "one.txt": ("text", b"hello\n"), "two.txt": ("hardlink", "one.txt"),
               "docs/x.md": ("text", b"hello\n"), "docs/LICENSES/inner.txt": ("text", b"hello\n"), "third_party/foo/.reuse/dep5": ("text", b"hello\n"), "third_party/foo/LICENSES/MIT.txt": ("text", b"hello\n"),
               "third_party/foo/code.c": ("text", b"x = 1\n")},
     "git": None},
    {"nodes": {"src/util.py": ("text", b"x = 1\n"), "src/util_alias.py": ("hardlink", "src/util.py"), "one.txt": ("text", b"hello\n"), "two.txt": ("hardlink", "one.txt")},
     "git": {"ignore": {}, "tracked": ["src/util.py", "one.txt"], "forced": [], "submodules": [], "exclude": []}},
    # a work tree whose .git is a file: ignore rules and force-added files as usual
    {"nodes": {"src/x.py": ("text", b"x = 1\n"), "build/out.py": ("text", b"x = 1\n"), "debug.log": ("text", b"hello\n"), "src/trace.log": ("text", b"hello\n"), "keep.log": ("text", b"hello\n"),
               "README.md": ("text", b"hello\n")},
     "git": {"ignore": {"": ["build/", "*.log"]}, "tracked": ["src/x.py", "README.md"], "forced": ["keep.log"], "submodules": [], "exclude": []}, "gitfile": True},
    # annotate -r a b src (the first three directories): siblings whose names merely begin with 'src' are not below src/
    {"nodes": {"a/x.py": ("text", b"x = 1\n"), "b/y.py": ("text", b"x = 1\n"), "src/m.py": ("text", b"x = 1\n"), "src/deep/n.py": ("text", b"x = 1\n"),
               "src-old/m.py": ("text", b"x = 1\n"), "src2/k.py": ("text", b"x = 1\n"), "srcfile.py": ("text", b"x = 1\n"), "src.txt": ("text", b"hello\n")},
     "git": None},
]


def run(ctx):
    k = 0
    for spec in DIRECTED:
        for flags in FLAGSETS:
            for mp in (False, True):
                k += 1
                if k % ctx.nshards == ctx.shard:
                    ctx.label("directed-tree")
                    check_tree(ctx, (spec, flags, mp, [0, 1, 2], False, False))
    n = 150 if ctx.tier == "quick" else 2500
    hyp_run(ctx, "trees", case_strategy, lambda c: check_tree(ctx, c), n)
