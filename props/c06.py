"""C06 — Licence inventory: missing, unused, bad, deprecated, extension-less.

Per generated project ~40 (identifier class, way of use, way of provision)
triples over the whole bundled SPDX list; one lint run judges all of them.
Oracle: vlib.ref.inventory (set algebra from the property statement).
"""

from hypothesis import strategies as st

from vlib import tree
from vlib.core import hyp_run
from vlib.gen import project as P
from vlib.gen import values as V
from vlib.ref import inventory as INV

ID = "C06"
LEVEL = "exploration"
RULE = (
    "Per project 25..60 distinct identifiers, each a triple (class in {current SPDX licence, deprecated licence, SPDX exception, LicenseRef-, unknown, "
    "wrong case} over the WHOLE bundled list, use in {unused, alone, 'ID+', AND, OR, parentheses, WITH (exceptions), two files, absorbable shapes 'A AND (A OR ID)' / 'A OR (A AND ID)'} carried by {header, "
    ".license, REUSE.toml, dep5}, provision in {absent, ID.txt, ID.md, ID without extension, sub/ID.txt, linked/ID.txt below a symlinked sub-directory of LICENSES/, ID+.txt, ID.txt with ID.txt.license}); unknown identifiers include malformed LicenseRef- names (underscore, non-ASCII).  One "
    "`reuse lint --json` per project; missing / unused / bad / deprecated / extension-less collections and summary.used_licenses must equal the "
    "reference inventory exactly.  Non-trivial = triple with use != unused or provision != absent; distinct by (class, use, source, provision, "
    "identifier)."
)
ASSUMPTIONS = [
    "vlib/ref/inventory.py states the classification; SPDX lists are read from the bundled JSON (domain data)",
    "at most one LICENSES/ file per identifier (two providers abort the tool; outside the statement)",
]

# ('both-forms': one file uses the identifier with and without the trailing '+')
USES = ["unused", "alone", "plus", "and", "or", "paren", "two-files", "absorb-and", "absorb-or", "both-forms"]
PROVS = ["absent", "txt", "md", "noext", "subdir", "plus-txt", "txt+license", "linked-subdir"]
SOURCES = ["header", "dotlicense", "global"]
FILLER = "0BSD"  # partner identifier for compound expressions, always provided


@st.composite
def ident_triples(draw):
    cur, dep, exc, excd = V.spdx_lists()
    n = draw(st.integers(25, 60))
    out = {}
    for _ in range(n):
        cls = draw(st.sampled_from(["current"] * 5 + ["deprecated", "deprecated", "exception", "exception", "licenseref", "licenseref", "unknown", "wrongcase"]))
        if cls == "current":
            ident = draw(st.sampled_from(cur))
        elif cls == "deprecated":
            ident = draw(st.sampled_from(dep))
        elif cls == "exception":
            ident = draw(st.sampled_from(exc + excd))
        elif cls == "licenseref":
            ident = "LicenseRef-" + draw(st.sampled_from(["custom", "ACME-1.0", "my.own", "x", "Proprietary", "Unknown-vendor", "scancode-Unknown"]))
        elif cls == "unknown":
            ident = draw(st.sampled_from(["NotALicense", "foo-1.0", "GPL-9.9", "MIT-like", "Copyleft", "BSD", "LicenceRef-typo", "LicenseRef", "licenseref-x",
                                             # LicenseRef- followed by characters the SPDX idstring does not allow
                                             "LicenseRef-my_license", "LicenseRef-Lizenz-für-Tests", "LicenseRef-a_b.c"]))
        else:
            base = draw(st.sampled_from(cur))
            ident = base.lower() if base.lower() != base else base.upper()
            if ident == base:
                continue
        if ident in (FILLER, "MIT") or ident in out or ident.endswith("+"):
            continue
        use = draw(st.sampled_from(USES))
        prov = draw(st.sampled_from(PROVS))
        src = draw(st.sampled_from(SOURCES))
        out[ident] = {"cls": cls, "use": use, "prov": prov, "src": src}
    return out


@st.composite
def project_case(draw):
    triples = draw(ident_triples())
    gkind = draw(st.sampled_from(["toml", "dep5"]))
    return {"triples": triples, "gkind": gkind}


def build(case):
    triples = case["triples"]
    gkind = case["gkind"]
    files = {}
    lic_files = []
    used = {}
    tables = []
    paras = []

    def use(ident, path):
        used.setdefault(ident, set()).add(path)

    def add_file(path, expr, src):
        cop = "SPDX-FileCopyrightText: 2020 Jane Doe"
        if src == "header":
            files[path] = P.header_text("python", [cop], [expr])
        elif src == "dotlicense":
            files[path] = "print('x')\n"
            files[path + ".license"] = P.header_text("none", [cop], [expr], body="")
        else:
            files[path] = "print('x')\n"
            if gkind == "toml":
                tables.append({"paths": [P.escape_glob(path)], "precedence": "override", "cop": ["2020 Jane Doe"], "lic": [expr]})
            else:
                paras.append({"files": [P.dep5_escape(path)], "cop": ["2020 Jane Doe"], "lic": expr})
        for i in INV.identifiers(expr):
            use(i, path)

    exceptions = set(V.spdx_lists()[2]) | set(V.spdx_lists()[3])
    k = 0
    for ident, t in triples.items():
        k += 1
        u = t["use"]
        is_exc = t["cls"] == "exception"
        if u != "unused":
            if is_exc:
                base = f"{FILLER} WITH {ident}"
                expr = {"alone": base, "plus": f"{FILLER}+ WITH {ident}", "and": f"{base} AND MIT", "or": f"MIT OR {base}",
                        "paren": f"({base}) AND MIT", "two-files": base, "both-forms": f"{FILLER}+ WITH {ident} OR {base}",
                        # boolean absorption would make the identifier disappear; it is used all the same
                        "absorb-and": f"MIT AND (MIT OR {base})", "absorb-or": f"MIT OR (MIT AND {base})"}[u]
            else:
                expr = {"alone": ident, "plus": ident + "+", "and": f"{ident} AND {FILLER}", "or": f"{FILLER} OR {ident}",
                        "paren": f"({ident} OR {FILLER}) AND MIT", "two-files": ident, "both-forms": f"{ident}+ OR {ident}",
                        "absorb-and": f"{FILLER} AND ({FILLER} OR {ident})", "absorb-or": f"{FILLER} OR ({FILLER} AND {ident})"}[u]
            add_file(f"src/f{k}.py", expr, t["src"])
            if u == "two-files":
                add_file(f"src/g{k}.py", expr + (" AND MIT" if not is_exc else ""), "header")
        p = t["prov"]
        if p == "txt":
            lic_files.append(f"{ident}.txt")
        elif p == "md":
            lic_files.append(f"{ident}.md")
        elif p == "noext":
            lic_files.append(ident)
        elif p == "subdir":
            lic_files.append(f"sub/{ident}.txt")
        elif p == "linked-subdir":
            # LICENSES/linked is a symbolic link to a directory elsewhere in the project
            lic_files.append(f"linked/{ident}.txt")
        elif p == "plus-txt":
            lic_files.append(f"{ident}+.txt")
        elif p == "txt+license":
            lic_files.append(f"{ident}.txt")
            files[f"LICENSES/{ident}.txt.license"] = "SPDX-FileCopyrightText: 2020 X\nSPDX-License-Identifier: CC0-1.0\n"
    # filler identifiers are always used and provided
    add_file("src/filler.py", f"{FILLER} AND MIT", "header")
    for base in (FILLER, "MIT"):
        lic_files.append(f"{base}.txt")
    # one provider per identifier *as the tool derives it*: 'eupl-1.0' and 'eupl-1.1' without extension both reduce to 'eupl-1'
    known = P.spdx_data().known
    seen_keys = set()
    unique = []
    for rel in lic_files:
        name = rel.rsplit("/", 1)[-1]
        key = name if name in known else (name[: name.rindex(".")] if "." in name[1:] else name)
        if key in seen_keys:
            continue
        seen_keys.add(key)
        unique.append(rel)
    lic_files[:] = unique
    for rel in lic_files:
        files[(f"LICENSES/{rel}" if not rel.startswith("linked/") else "third_party/lic/" + rel[len("linked/"):])] = "licence text\n"
    if gkind == "toml" and tables:
        files["REUSE.toml"] = P.reuse_toml(tables)
    if gkind == "dep5" and paras:
        files[".reuse/dep5"] = P.dep5(paras)
    return files, used, lic_files


def check_project(ctx, case):
    files, used, lic_files = build(case)
    spdx = P.spdx_data()
    inv = INV.inventory(used, lic_files, spdx)
    root = ctx.fresh_dir()
    try:
        tree.write_tree(root, files)
        if any(r.startswith("linked/") for r in lic_files):
            import os

            os.symlink("../third_party/lic", root / "LICENSES" / "linked")
        res, data = tree.lint_json(root, mp=False)
        if data is None:
            ctx.fail(case, f"lint --json failed: {res.brief()}")
        nc = data["non_compliant"]
        rel = lambda s: P.relativise(root, s)  # noqa: E731
        got_missing = {k: {rel(x) for x in v} for k, v in nc["missing_licenses"].items()}
        got_bad = {k: {rel(x) for x in v} for k, v in nc["bad_licenses"].items()}
        got_unused = set(nc["unused_licenses"])
        got_dep = set(nc["deprecated_licenses"])
        got_noext = {k: rel(v) for k, v in nc["licenses_without_extension"].items()}
        got_used = set(data["summary"]["used_licenses"])
        exp_bad = {}
        for k, v in inv["bad_used"].items():
            exp_bad.setdefault(k, set()).update(v)
        for k, r in inv["bad_provided"].items():
            exp_bad.setdefault(k, set()).add(f"LICENSES/{r}")
        exp_noext = {k: f"LICENSES/{r}" for k, r in inv["no_extension"].items()}

        for ident, t in case["triples"].items():
            ctx.count(("triple", t["cls"], t["use"], t["src"], t["prov"], ident), nontrivial=t["use"] != "unused" or t["prov"] != "absent",
                      labels=[f"class:{t['cls']}", f"use:{t['use']}", f"prov:{t['prov']}", f"src:{t['src'] if t['src'] != 'global' else case['gkind']}"],
                      sample={"identifier": ident, **t})

        def sig_for(idents):
            idents = set(idents)
            if idents and all("Unknown" in i and INV.is_licenseref(i) for i in idents):
                return "licenseref-unknown-is-bad"
            return ""

        def diff_keys(a, b):
            return {k for k in set(a) | set(b) if a.get(k) != b.get(k)}

        problems = []
        d = diff_keys(got_missing, inv["missing"])
        if d:
            problems.append(("missing_licenses", d, {k: sorted(got_missing.get(k, [])) for k in d}, {k: sorted(inv["missing"].get(k, [])) for k in d}))
        d = diff_keys(got_bad, exp_bad)
        if d:
            problems.append(("bad_licenses", d, {k: sorted(got_bad.get(k, [])) for k in d}, {k: sorted(exp_bad.get(k, [])) for k in d}))
        if got_unused != inv["unused"]:
            problems.append(("unused_licenses", got_unused ^ inv["unused"], sorted(got_unused - inv["unused"]), sorted(inv["unused"] - got_unused)))
        if got_dep != inv["deprecated"]:
            problems.append(("deprecated_licenses", got_dep ^ inv["deprecated"], sorted(got_dep - inv["deprecated"]), sorted(inv["deprecated"] - got_dep)))
        d = diff_keys(got_noext, exp_noext)
        if d:
            problems.append(("licenses_without_extension", d, {k: got_noext.get(k) for k in d}, {k: exp_noext.get(k) for k in d}))
        if got_used != set(used):
            problems.append(("summary.used_licenses", got_used ^ set(used), sorted(got_used - set(used)), sorted(set(used) - got_used)))
        if problems:
            idents = set()
            for p in problems:
                idents |= set(p[1])
            trip = {i: case["triples"].get(i) for i in sorted(idents)}
            msg = "; ".join(f"{name}: tool {got!r} vs model {exp!r}" for name, _ids, got, exp in problems)
            ctx.fail({"triples": {i: case["triples"][i] for i in idents if i in case["triples"]}, "gkind": case["gkind"]},
                     f"inventory differs for {trip}: {msg}", sig_for(idents))
            return  # (only reached for a recorded finding: the exit status then differs too)
        exit_expected = 0 if not (inv["missing"] or exp_bad or inv["unused"] or inv["deprecated"] or exp_noext) else 1
        if res.code != exit_expected:
            ctx.fail(case, f"exit status {res.code}, expected {exit_expected}")
    finally:
        tree.rmtree(root)


def replay(ctx, case):
    check_project(ctx, case)


def run(ctx):
    q = ctx.tier == "quick"
    hyp_run(ctx, "projects", project_case(), lambda c: check_project(ctx, c), 200 if q else 1500)
    if not q or True:
        # complete walk over the bundled lists: every identifier once, provided without extension and used alone
        cur, dep, exc, excd = V.spdx_lists()
        allids = [i for i in cur + dep + exc + excd if not i.endswith("+")]
        mine = [i for n, i in enumerate(allids) if n % ctx.nshards == ctx.shard]
        step = 40
        for a in range(0, len(mine), step):
            chunk = mine[a:a + step]
            trip = {}
            for n, i in enumerate(chunk):
                if i == FILLER or i == "MIT":
                    continue
                cls = "exception" if i in exc or i in excd else "deprecated" if i in dep else "current"
                prov = ["noext", "txt", "absent", "md"][(n + ctx.seed) % 4]
                trip[i] = {"cls": cls, "use": ["alone", "plus", "unused"][n % 3], "prov": prov, "src": "header"}
            check_project(ctx, {"triples": trip, "gkind": "toml"})
        ctx.extra["exhaustive_subspaces"] = [f"every identifier of the bundled SPDX licence and exception lists ({len(allids)}) appears once in a (use, provision) triple"]
