"""C08 — Annotate changes nothing but the header.

File = [BOM] [first-line declaration] pre-lines [existing header block] post-lines,
uniform EOL (LF / CRLF / CR), with or without final newline, in every comment
style, replacing and --no-replace mode.  The generator records which lines lie
outside the header block (each carries a unique token), so "outside" is known
by construction.  Oracle: output = P' + H + S' with P'/S' byte-equal to the
outside lines, only whitespace-only lines / trailing whitespace directly
adjacent to H may differ; BOM and declaration stay first; EOL convention and
final newline are kept.
"""

from hypothesis import strategies as st

from vlib import annot as AN
from vlib import cli, tree
from vlib.core import hyp_run
from vlib.gen import project as P
from vlib.gen import styles as S
from vlib.gen import values as V

ID = "C08"
LEVEL = "exploration"
RULE = (
    "Style (27) x EOL {LF, CRLF, CR} x BOM x first-line declaration (shebang / <?xml / <?php / cabal-version / % !TEX where the style documents one; optionally a second declaration of another kind below it) x "
    "0..6 pre-lines and 0..8 post-lines from {code, indented code, blank runs, comment lines in the file's own and in foreign styles, form-feed and "
    "U+2028 lines, trailing-blank lines, code lines that merely start with the letters of a word-like marker ('REMOVE.EXE' in a batch file), lines holding a stray carriage return (LF / CRLF files, clearly in the minority)} x existing header {absent, single-line block, multi-line block, block whose closing delimiter is followed by code on the same line} at top or in the middle x final newline or "
    "not x {ordinary, block of more than 4 KiB} x replace / --no-replace.  Every outside line carries a unique token.  Oracle: outside lines are found byte-for-byte and in order around one "
    "inserted block; only blank lines / trailing blanks adjacent to the block may differ; BOM first, declaration first line, all EOLs as in the input, "
    "final newline kept.  Non-trivial = >= 2 outside lines and (existing header or declaration or BOM or non-LF EOL); distinct by file content + options."
)
ASSUMPTIONS = [
    "own-style comment lines are separated from the header block by a non-comment line (the tool defines the header as the whole contiguous comment block)",
    "outside code lines never start with a letter that is a comment marker of the style ('c', 'dnl', 'REM')",
    "mixed line endings are not generated",
]

DECL = {"python": ["#!/usr/bin/env python3"], "julia": ["#!/usr/bin/env julia"], "html": ['<?xml version="1.0" encoding="UTF-8"?>'],
        "cpp": ["<?php", "#!/usr/bin/env v"], "tex": ["% !TEX root = main.tex", "%!TEX program = xelatex"], "haskell": ["cabal-version: 3.0"],
        "cppsingle": ["#!/usr/bin/env gleam"], "bibtex": ["% !BIB program = biber"]}


# a second first-line declaration of ANOTHER kind right below the first (an executable PHP script: '#!...' then '<?php'); it is an ordinary
# outside line: the first line stays first, this one is kept as it is
DECL2 = {"cpp": {"#!/usr/bin/env v": "<?php"}, "tex": {"% !TEX root = main.tex": "%!TEX program = xelatex"}, "bibtex": {"% !BIB program = biber": "%!BIB program = bibtex8"}}


def own_comment(style, k):
    single, multi = S.STYLES[style]
    if single is not None:
        return [f"{single} ordinary comment ~{k}~"]
    start, mid, end = multi
    return [f"{start} ordinary comment ~{k}~ {end.strip()}"]


def is_own_comment_line(style, line):
    single, multi = S.STYLES[style]
    ls = line
    if style == "lisp" and ls.startswith(";"):
        return True  # the tool takes any run of semicolons for a Lisp comment
    if single is not None and ls.startswith(single):
        # a marker that is a word ('REM', 'dnl') has to end there: 'REMOVE.EXE' is code
        if len(single) > 1 and single[-1].isalnum() and ls[len(single):len(single) + 1].isalnum():
            return False
        return True
    if multi is not None and ls.startswith(multi[0]):
        return True
    return False


@st.composite
def lines(draw, style, n, start_k):
    out = []
    k = start_k
    for _ in range(n):
        kind = draw(st.sampled_from(["code", "code", "indent", "blank", "blank2", "own", "foreign", "ff", "u2028", "trail", "tab", "stray-cr", "lookalike", "not-nfc"]))
        k += 1
        if kind == "code":
            out.append(f"int x{k} = {k}; /* ~{k}~ */" if style not in ("c", "cpp") else f"int x{k} = {k}; ~{k}~")
        elif kind == "indent":
            out.append(f"    indented ~{k}~")
        elif kind == "blank":
            out.append("")
        elif kind == "blank2":
            out += ["", "   ", ""]
        elif kind == "own":
            out += own_comment(style, k)
        elif kind == "foreign":
            out.append(draw(st.sampled_from(["// foreign ~%d~", "# foreign ~%d~", "<!-- foreign ~%d~ -->", "; foreign ~%d~", "-- foreign ~%d~"])) % k)
        elif kind == "ff":
            out.append(f"int y{k};\x0c ~{k}~")
        elif kind == "u2028":
            out.append(f"let s{k} = ' '; ~{k}~")
        elif kind == "not-nfc":
            # text that is not in Unicode normal form C (a decomposed accent, OHM SIGN, ANGSTROM SIGN): kept byte for byte
            out.append(f"name{k} = 'cafe\u0301 \u2126 \u212b' ~{k}~")
        elif kind == "lookalike":
            # code that merely starts with the letters of a word-like comment marker
            single = S.STYLES[style][0]
            if single and len(single) > 1 and single[-1].isalnum():
                out.append(f"{single}OVE9.EXE arg ~{k}~")
            else:
                out.append(f"int w{k} = {k}; ~{k}~")
        elif kind == "stray-cr":
            # one carriage return inside a line (a progress-bar string, say); harmless unless the file's own line ending is CR
            out.append(f"print('working\rdone') ~{k}~")
        elif kind == "trail":
            out.append(f"int z{k}; ~{k}~   ")
        else:
            out.append(f"\tlet t{k} ~{k}~")
    return out


@st.composite
def case(draw):
    style = draw(st.sampled_from(sorted(S.STYLES)))
    eol = draw(st.sampled_from(["\n", "\n", "\r\n", "\r"]))
    bom = draw(st.integers(0, 5)) == 0
    decl = draw(st.sampled_from(DECL[style])) if style in DECL and draw(st.booleans()) else None
    header = draw(st.sampled_from([None, None, "single", "multi", "own-default"]))
    where = draw(st.sampled_from(["top", "middle"]))
    pre = draw(lines(style, draw(st.integers(0, 5)), 100)) if (header and where == "middle") or not header else []
    post = draw(lines(style, draw(st.integers(0, 8)), 200))
    hinfo = None
    if header:
        hinfo = {"cop": [V.notice("spdx", "2019", draw(V.safe_holder()))], "lic": [draw(st.sampled_from(["MIT", "GPL-3.0-or-later", "Apache-2.0 OR MIT"]))]}
    req = draw(AN.request(max_holders=2))
    if decl and draw(st.integers(0, 3)) == 0:
        # the first line recurs verbatim further down (a script writing a script, a quoted XML declaration)
        post = post + [decl, "int after_dup; ~299~"]
    if decl and DECL2.get(style, {}).get(decl) and draw(st.booleans()):
        pre = [DECL2[style][decl]] + pre
    if hinfo:
        # a header block of more than 4 KiB (tags, then a long licence notice): it has to be found and replaced as a whole
        hinfo["long"] = draw(st.integers(0, 5)) == 0
        hinfo["boundary"] = draw(st.sampled_from([None, None, None, None, "\x0c", "\u2028", "\x1c"]))
        cdecl = [d for d in DECL.get(style, []) if S.has_single(style) and d.startswith(S.STYLES[style][0][:1])]
        hinfo["inner_decl"] = draw(st.sampled_from(cdecl)) if cdecl and where == "middle" and pre and draw(st.booleans()) else None
        hinfo["trail"] = draw(st.lists(st.sampled_from(["", "", " ", "  ", "\t", " \t "]), min_size=6, max_size=6))
        # code on the same line as the delimiter that closes an existing block header
        hinfo["tailcode"] = draw(st.integers(0, 5)) == 0
    return {"style": style, "eol": eol, "bom": bom, "decl": decl, "header": header, "hinfo": hinfo, "pre": pre, "post": post,
            "final_newline": draw(st.sampled_from([True, True, False])), "no_replace": draw(st.integers(0, 3)) == 0, "req": req}


def header_lines(style, form, hinfo):
    body = hinfo["cop"] + [""] + [f"SPDX-License-Identifier: {x}" for x in hinfo["lic"]]
    if hinfo.get("boundary"):
        # a form feed / U+2028 in the middle of a line of the block (str.splitlines() breaks lines there, the file does not)
        body += [f"Descriptive text{hinfo['boundary']}of the header, part two."]
    if hinfo.get("long"):
        body += [""] + [f"This program is free software; you can redistribute it and/or modify it, notice line {i:02d}." for i in range(62)]
    if form == "multi" and S.has_multi(style) or not S.has_single(style):
        out = S.wrap_block(style, body)
    else:
        out = S.wrap_single(style, body)
    if hinfo.get("inner_decl") and S.has_single(style) and not is_block(style, form):
        # the block (further down in the file: a script written by a here-document, concatenated parts) begins with a line that looks like a
        # first-line declaration; it is an ordinary comment line of that block
        out = [hinfo["inner_decl"]] + out
    trail = hinfo.get("trail") or []
    # trailing blanks on lines of the existing header (never part of a tag value)
    out = [ln + (trail[i % len(trail)] if trail else "") for i, ln in enumerate(out)]
    if hinfo.get("tailcode") and is_block(style, form) and len(out) >= 2:
        out[-1] = out[-1].rstrip() + " " + TAILCODE
    return out


TAILCODE = "int trailing_code; ~950~"


def is_block(style, form):
    return bool(form == "multi" and S.has_multi(style) or not S.has_single(style))


def build(c):
    style = c["style"]
    pre = list(c["pre"])
    post = list(c["post"])
    hl = header_lines(style, c["header"], c["hinfo"]) if c["header"] else []
    # keep own-style comment lines from touching the header block
    if hl and pre and (is_own_comment_line(style, pre[-1]) or (S.has_single(style) and pre[-1].lstrip() != pre[-1] and False)):
        pre.append("int sep_before; ~900~")
    if hl and post and is_own_comment_line(style, post[0]):
        post.insert(0, "")
    if not hl and not c["no_replace"]:
        pass
    # a stray carriage return is only a *stray* one where it is clearly in the minority and is not the file's own line ending
    strays = sum(1 for ln in pre + post if "\r" in ln)
    if c["eol"] == "\r" or strays * 3 > len(pre) + len(post) + len(hl):
        pre = [ln.replace("\r", "R") for ln in pre]
        post = [ln.replace("\r", "R") for ln in post]
    outside_pre = ([c["decl"]] if c["decl"] else []) + pre
    all_lines = outside_pre + hl + post
    if not all_lines:
        all_lines = ["int only; ~901~"]
        post = list(all_lines)
    text = c["eol"].join(all_lines)
    if c["final_newline"]:
        text += c["eol"]
    header_idx = set(range(len(outside_pre), len(outside_pre) + len(hl)))
    if c["bom"]:
        text = "﻿" + text
    return text, outside_pre, hl, post, header_idx


def physical(text, eol):
    """Physical lines, each with its terminator; no empty tail element."""
    parts = text.split(eol)
    out = [p + eol for p in parts[:-1]]
    if parts[-1] != "":
        out.append(parts[-1])
    return out


def check(ctx, c):
    style = c["style"]
    eol = c["eol"]
    text, outside_pre, hl, post, header_idx = build(c)
    name = "file" + S.EXT_FOR_STYLE[style]
    root = ctx.fresh_dir()
    try:
        tree.write_tree(root, {name: text.encode("utf-8")})
        args = ["annotate", *AN.request_args(c["req"])]
        if not c["req"]["exclude_year"] and not c["req"]["years"]:
            args += ["--year", "2022"]
        if c["no_replace"]:
            args.append("--no-replace")
        args.append(name)
        res = cli.run(args, root)
        in_phys = physical(text[1:] if c["bom"] else text, eol)
        tailcode = bool(hl) and hl[-1].endswith(TAILCODE)
        O = [ln for k, ln in enumerate(in_phys) if c["no_replace"] or tailcode or k not in header_idx]
        labels_extra = ["tailcode-after-closing-delimiter"] if tailcode else []
        ctx.count(text + repr(args), nontrivial=len([x for x in O if x.strip()]) >= 2 and bool(hl or c["decl"] or c["bom"] or eol != "\n"),
                  labels=[f"style:{style}", f"eol:{eol!r}", f"bom:{c['bom']}", f"decl:{bool(c['decl'])}", f"header:{c['header']}", f"no_replace:{c['no_replace']}",
                          f"final_newline:{c['final_newline']}", f"exit:{res.code}", f"header>4KiB:{bool(c['hinfo'] and c['hinfo'].get('long'))}",
                          f"second-declaration:{bool(c['decl'] and c['pre'] and DECL2.get(style, {}).get(c['decl']) == c['pre'][0])}"] + labels_extra,
                  sample={"name": name, "input": text[:400], "args": args})
        if res.crash is not None:
            ctx.label("crash-left-to-C16")
            return
        if res.code != 0 or "Successfully changed header" not in res.out:
            ctx.fail(c, f"annotate did not succeed on a plain text file: {res.brief()}")
        if f"{name}.license" in res.out:
            # the third-party binary heuristic took the text (e.g. with a form feed) for a binary: the header went to the sibling
            if (root / name).read_bytes() != text.encode("utf-8"):
                ctx.fail(c, "annotate wrote FILE.license and changed FILE as well")
            ctx.label("taken-for-binary")
            return
        out = (root / name).read_bytes().decode("utf-8")
        case_d = dict(c, input=text, output=out)
        # ---- BOM
        if c["bom"]:
            if not out.startswith("﻿"):
                ctx.fail(case_d, f"byte order mark is no longer first: output starts with {out[:60]!r}")
            out_body = out[1:]
        else:
            out_body = out
        if "﻿" in out_body:
            ctx.fail(case_d, "a byte order mark ended up inside the file")
        # ---- EOL convention
        if eol not in text:
            eol = "\n"  # a file without any line break has no convention to keep; the tool uses the platform's
        in_body = text[1:] if c["bom"] else text
        if eol == "\n" and out_body.count("\r") != in_body.count("\r"):
            ctx.fail(case_d, f"LF file: {in_body.count(chr(13))} carriage returns before, {out_body.count(chr(13))} after: {out_body[:200]!r}")
        if eol == "\r" and "\n" in out_body:
            ctx.fail(case_d, "CR file now contains LF")
        lone = lambda s: (s.replace("\r\n", "").count("\r"), s.replace("\r\n", "").count("\n"))  # noqa: E731
        if eol == "\r\n" and lone(out_body) != lone(in_body):
            ctx.fail(case_d, f"CRLF file: lone (CR, LF) counts {lone(in_body)} before, {lone(out_body)} after: {out_body[:200]!r}")
        out_lines = physical(out_body, eol)
        # ---- declaration first
        if c["decl"] and (not out_lines or out_lines[0].rstrip("\r\n") != c["decl"]):
            ctx.fail(case_d, f"first-line declaration {c['decl']!r} is no longer the first line: {out_lines[:2]!r}")
        # ---- locate outside lines (with their terminators).  A kept old header may hold the very lines the new one
        # starts with, so both greedy alignments are tried; the file is fine if either explains it.
        def align(prefix_first):
            def pref(limit):
                i = 0
                while i < limit and i < len(out_lines) and out_lines[i] == O[i]:
                    i += 1
                if i < limit and i < len(out_lines) and O[i].strip() and out_lines[i].rstrip() == O[i].rstrip() and out_lines[i].endswith(eol):
                    i += 1  # trailing blanks of the line directly before the header may go (and it now ends in an EOL)
                return i

            def suff(limit):
                j = 0
                while j < limit and j < len(out_lines) and out_lines[len(out_lines) - 1 - j] == O[len(O) - 1 - j]:
                    j += 1
                return j

            if prefix_first:
                i = pref(len(O))
                j = suff(min(len(O) - i, len(out_lines) - i))
            else:
                j = suff(len(O))
                i = pref(min(len(O) - j, len(out_lines) - j))
            return i, j

        def problems(i, j):
            lost = [x for x in O[i:len(O) - j] if x.strip()]
            if lost:
                return f"outside line(s) not kept byte-for-byte (terminator included): {lost[:3]!r}; output lines {out_lines[:14]!r}..."
            middle = out_lines[i:len(out_lines) - j]
            for m in middle:
                if "~" in m and any(f"~{t}~" in m for t in range(100, 1000)):
                    return f"an outside line appears altered inside the header region: {m!r}"
            core = [m.rstrip("\r\n") for m in middle if m.strip()]
            single, multi = S.STYLES[style]
            if core:
                if single is not None:
                    bad = [m for m in core if not m.startswith(single)]
                    if bad:
                        return f"line(s) that are neither outside lines nor part of a {style} comment appeared next to the header: {bad[:3]!r}; region {core!r}"
                else:
                    start_, _mid, end_ = multi
                    ends = [m for m in core if m.rstrip().endswith(end_.strip())]
                    if not core[0].startswith(start_) or not core[-1].rstrip().endswith(end_.strip()) or len(ends) != 1:
                        return f"the inserted region is not one {style} comment block: {core!r}"
            return None

        i, j = align(True)
        msg = problems(i, j)
        if msg:
            i2, j2 = align(False)
            if problems(i2, j2) is None:
                i, j, msg = i2, j2, None
        if msg and tailcode and not c["no_replace"]:
            # the other admissible reading: the block is taken for the header and replaced; the code after its
            # closing delimiter is outside the comment and has to survive, wherever it is put
            O = [ln for k, ln in enumerate(in_phys) if k not in header_idx]  # noqa: N806
            if out_body.count(TAILCODE) == 1:
                for pf in (True, False):
                    i3, j3 = align(pf)
                    lost = [x for x in O[i3:len(O) - j3] if x.strip()]
                    if not lost:
                        i, j, msg = i3, j3, None
                        break
        if msg:
            ctx.fail(case_d, msg)
        middle = out_lines[i:len(out_lines) - j]
        joined = "".join(middle)
        for w in list(AN.requested_notices(dict(c["req"], years=c["req"]["years"] or ([] if c["req"]["exclude_year"] else ["2022"])))) + \
                [f"SPDX-FileContributor: {x}" for x in c["req"]["contributors"]]:
            if w not in joined:
                ctx.fail(case_d, f"requested line {w!r} is not in the inserted block {middle!r}")
    finally:
        tree.rmtree(root)


def replay(ctx, c):
    c = {k: v for k, v in c.items() if k not in ("input", "output")}
    check(ctx, c)


def run(ctx):
    q = ctx.tier == "quick"
    hyp_run(ctx, "files", case(), lambda c: check(ctx, c), 900 if q else 9000)
