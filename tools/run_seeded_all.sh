#!/bin/sh
# Run every kept seeded change against its checks, N at a time (default 4); merge the partial results into seeded/RESULTS.json.
# usage: tools/run_seeded_all.sh [N]
cd "$(dirname "$0")/.."
N=${1:-4}
T=$(mktemp -d /dev/shm/verif-seedall-XXXXXX)
ls seeded | grep '^C[0-9][0-9]-' > "$T/names"
split -n l/$N "$T/names" "$T/part-"
for f in "$T"/part-*; do
  ( tools/run_seeded.py $(cat "$f") --results="$f.json" > "$f.log" 2>&1 ) &
done
wait
/venv/bin/python - "$T" <<'PY'
import glob, json, sys
res = {}
for f in sorted(glob.glob(sys.argv[1] + "/part-*.json")):
    res.update(json.load(open(f)))
json.dump(res, open("seeded/RESULTS.json", "w"), indent=1, sort_keys=True)
missed = sorted(k for k, v in res.items() if not v.get("caught") and not v.get("retired"))
print(len(res), "changes;", sum(1 for v in res.values() if v.get("caught")), "caught;", sum(1 for v in res.values() if v.get("retired")), "retired; not caught:", missed)
PY
cat "$T"/part-*.log | grep -v "CAUGHT" | head -40
rm -rf "$T"
