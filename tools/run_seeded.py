#!/venv/bin/python
"""Run our checks against the confirmed seeded changes under /verif/seeded/.

    tools/run_seeded.py [name ...] [--checks=C01,C13] [--tier=quick] [--results=FILE]

Each change is applied in a scratch worktree of /repo HEAD under /dev/shm
(VERIF_REPO points the check at it), never in /repo itself.  Results are
written to seeded/RESULTS.json and printed as a table.
"""

import json
import os
import shutil
import subprocess
import sys
import time
from pathlib import Path

V = Path(__file__).resolve().parent.parent


def sh(cmd, cwd=None, env=None, timeout=7200):
    p = subprocess.run(cmd, cwd=cwd, env=env, capture_output=True, text=True, timeout=timeout, check=False)
    return p.returncode, (p.stdout + p.stderr)


def main():
    names = [a for a in sys.argv[1:] if not a.startswith("--")]
    opts = dict(a[2:].split("=", 1) for a in sys.argv[1:] if a.startswith("--") and "=" in a)
    tier = opts.get("tier", "quick")
    sdir = V / "seeded"
    if not names:
        names = sorted(p.name for p in sdir.iterdir() if (p / "patch.diff").exists())
    resfile = Path(opts["results"]) if "results" in opts else sdir / "RESULTS.json"
    results = json.loads(resfile.read_text()) if resfile.exists() else {}
    for name in names:
        d = sdir / name
        meta = json.loads((d / "meta.json").read_text()) if (d / "meta.json").exists() else {}
        pid = meta.get("property", name.split("-")[0])
        if meta.get("retired"):
            results[name] = {"retired": meta["retired"]}
            print(f"{name}: retired")
            resfile.write_text(json.dumps(results, indent=1, sort_keys=True) + "\n")
            continue
        check_ids = opts["checks"].split(",") if "checks" in opts else meta.get("checks", [pid])
        wt = Path(f"/dev/shm/verif-seedrun-{name}-{os.getpid()}")
        rc, out = sh(["git", "-C", "/repo", "worktree", "add", "-q", "--detach", str(wt), "HEAD"])
        if rc:
            print(out)
            return 2
        try:
            rc, out = sh(["git", "apply", "--whitespace=nowarn", str(d / "patch.diff")], cwd=str(wt))
            if rc:
                results[name] = {"error": "patch does not apply: " + out[-300:]}
                print(f"{name}: PATCH DOES NOT APPLY")
                continue
            r = {}
            for cid in check_ids:
                if not (V / "props" / f"{cid.lower()}.py").exists():
                    r[cid] = {"exit": None, "note": "check not built"}
                    continue
                t0 = time.time()
                rc, out = sh([str(V / "check"), cid, "--tier", tier], cwd=str(V), env=dict(os.environ, VERIF_REPO=str(wt)))
                lines = [l[:400] for l in out.splitlines() if l.startswith(("VIOLATION", "violation:", "HARNESS"))][:3]
                r[cid] = {"exit": rc, "wall_s": round(time.time() - t0, 1), "lines": lines}
            head = sh(["git", "-C", "/repo", "rev-parse", "--short", "HEAD"])[1].strip()
            results[name] = {"tier": tier, "repo_head": head, "checks": r,
                             "caught": any(x.get("exit") == 1 and any(l.startswith("VIOLATION") for l in x.get("lines", [])) for x in r.values())}
            print(f"{name}: " + ", ".join(f"{c}=exit{x.get('exit')}" for c, x in r.items()) + ("  CAUGHT" if results[name]["caught"] else "  missed"))
        finally:
            sh(["git", "-C", "/repo", "worktree", "remove", "--force", str(wt)])
            shutil.rmtree(wt, ignore_errors=True)
        resfile.write_text(json.dumps(results, indent=1, sort_keys=True) + "\n")
    return 0


if __name__ == "__main__":
    sys.exit(main())
