#!/bin/sh
# tools/intake.sh <ID> [offset]  — take the two changes a round-2 sub-agent left in /tmp/wt2-<ID>/_seeded/{1,2},
# confirm them (suite + demo) and run our quick check(s) against them.
id=$1; off=${2:-2}; pre=${3:-wt2}
cd "$(dirname "$0")/.."
for i in 1 2; do
  n=$((i + off))
  mkdir -p /dev/shm/seeded-raw/$id-$n
  cp /tmp/$pre-$id/_seeded/$i/patch.diff /tmp/$pre-$id/_seeded/$i/demo.py /tmp/$pre-$id/_seeded/$i/notes.md /dev/shm/seeded-raw/$id-$n/ 2>/dev/null
  tools/confirm_seeded.py /dev/shm/seeded-raw/$id-$n $id $n --no-checks > /dev/shm/seeded-raw/$id-$n.log 2>&1
  grep -E '"confirmed"|suite_tail|apply_error' /dev/shm/seeded-raw/$id-$n.log | tr -d '\n'; echo " $id-$n"
done
git -C /repo worktree remove --force /tmp/$pre-$id 2>/dev/null
for i in 1 2; do n=$((i + off)); [ -d seeded/$id-$n ] && tools/run_seeded.py $id-$n; done
