#!/bin/sh
# Offline setup: make sure Hypothesis and jsonschema are importable by /venv/bin/python
# (installing from the local wheelhouse into /verif/.deps when they are not),
# then self-check the reference models and the known-findings file.
set -e
cd "$(dirname "$0")/.."
export PIP_NO_INDEX=1
need=""
/venv/bin/python -c "import hypothesis" 2>/dev/null || need="$need hypothesis"
/venv/bin/python -c "import jsonschema" 2>/dev/null || need="$need jsonschema"
if [ -n "$need" ]; then
  mkdir -p .deps
  /venv/bin/pip install --quiet --no-index --find-links /opt/veriftools/wheels --target .deps $need
fi
# atheris (coverage-guided stage of C05 / C16) is optional: without it that stage is skipped and says so in the evidence
if ! PYTHONPATH="$PWD/.deps" /venv/bin/python -c "import atheris" 2>/dev/null; then
  mkdir -p .deps
  /venv/bin/pip install --quiet --no-index --find-links /opt/veriftools/wheels --target .deps atheris 2>/dev/null || echo "setup: atheris not installable, coverage-guided stage will be skipped"
fi
PYTHONPATH="$PWD/.deps" /venv/bin/python -B - <<'PY'
import sys
sys.path.insert(0, ".")
sys.path.append(".deps")
import hypothesis
from vlib import findings, env
k, f = findings.parse()
env.setup()
import importlib, pkgutil
import vlib.ref
for m in pkgutil.iter_modules(vlib.ref.__path__):
    importlib.import_module("vlib.ref." + m.name)   # each runs its own _selftest()
print("setup ok: hypothesis", hypothesis.__version__, "| findings:", len(k), "known,", len(f), "fixed")
PY
