#!/bin/sh
# Run every registered quick check at several seeds on the unchanged tree; print id seed exit wall.
cd "$(dirname "$0")/.."
for seed in "$@"; do
  for id in C01 C02 C03 C04 C05 C06 C07 C08 C09 C10 C11 C12 C13 C14 C15 C16 C17 C18 C19 C20; do
    t0=$(date +%s)
    VERIF_SEED=$seed ./check $id --tier quick > /dev/shm/stab-$id-$seed.log 2>&1
    rc=$?
    echo "$id seed=$seed exit=$rc wall=$(( $(date +%s) - t0 ))s $(grep -c '^VIOLATION' /dev/shm/stab-$id-$seed.log) violations"
  done
done
