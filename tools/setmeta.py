#!/venv/bin/python
"""tools/setmeta.py <name> <round> <breaks> <needs> [checks,comma]: fill the hand-written fields of seeded/<name>/meta.json."""
import json, sys
from pathlib import Path
name, rnd, breaks, needs = sys.argv[1:5]
p = Path(__file__).resolve().parent.parent / "seeded" / name / "meta.json"
m = json.loads(p.read_text())
m.update(breaks=breaks, needs=needs, checks=(sys.argv[5].split(",") if len(sys.argv) > 5 else [m["property"]]), round=int(rnd),
         what_i_ran="tools/confirm_seeded.py (scratch worktree of /repo HEAD under /dev/shm: demo on clean tree exit 0, patch applied, demo exit != 0, full suite 556 passed / 9 known failures) and tools/run_seeded.py (quick checks with VERIF_REPO pointing at the patched worktree)")
p.write_text(json.dumps(m, indent=1) + "\n")
