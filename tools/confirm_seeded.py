#!/venv/bin/python
"""Confirm a seeded change independently and file it under /verif/seeded/.

    tools/confirm_seeded.py <raw_dir> <property_id> <n> [--skip-suite]

<raw_dir> holds patch.diff, demo.py, notes.md as written by a sub-agent.
Steps (all in a scratch worktree of /repo HEAD under /dev/shm, removed at the
end): demo on the clean tree must exit 0; patch must apply; demo with the patch
must exit non-zero; the repository's test suite with the patch must show the
556 baseline tests passing; then our own check is run against the patched
tree (VERIF_REPO) and the outcome recorded.
"""

import json
import os
import re
import shutil
import subprocess
import sys
import time
from pathlib import Path

V = Path(__file__).resolve().parent.parent
PY = "/venv/bin/python"


def sh(cmd, cwd=None, env=None, timeout=3600):
    p = subprocess.run(cmd, cwd=cwd, env=env, capture_output=True, text=True, timeout=timeout, check=False)
    return p.returncode, (p.stdout + p.stderr)


def main():
    raw = Path(sys.argv[1]).resolve()
    pid = sys.argv[2]
    n = sys.argv[3]
    skip_suite = "--skip-suite" in sys.argv
    checks = [a.split("=", 1)[1] for a in sys.argv if a.startswith("--checks=")]
    check_ids = checks[0].split(",") if checks else [pid]
    name = f"{pid}-{n}"
    wt = Path(f"/dev/shm/verif-seed-{name}-{os.getpid()}")
    meta = {"property": pid, "name": name, "confirmed_at": time.strftime("%Y-%m-%dT%H:%M:%SZ", time.gmtime())}
    rc, out = sh(["git", "-C", "/repo", "worktree", "add", "-q", "--detach", str(wt), "HEAD"])
    if rc:
        print(out)
        return 2
    try:
        meta["repo_head"] = sh(["git", "-C", "/repo", "rev-parse", "--short", "HEAD"])[1].strip()
        env = dict(os.environ, PYTHONPATH=str(wt / "src"), LC_ALL="C", LANGUAGE="")
        demo = raw / "demo.py"
        rc0, out0 = sh([PY, str(demo)], cwd=str(wt), env=env, timeout=600)
        meta["demo_clean_exit"] = rc0
        rc, out = sh(["git", "apply", "--whitespace=nowarn", str(raw / "patch.diff")], cwd=str(wt))
        if rc:
            rc, out = sh(["git", "apply", "--3way", "--whitespace=nowarn", str(raw / "patch.diff")], cwd=str(wt))
        meta["patch_applies"] = rc == 0
        if rc:
            meta["apply_error"] = out[-800:]
            print(json.dumps(meta, indent=1))
            return 1
        rc1, out1 = sh([PY, str(demo)], cwd=str(wt), env=env, timeout=600)
        meta["demo_patched_exit"] = rc1
        meta["demo_patched_output"] = out1[-1500:]
        if not skip_suite:
            rc, out = sh(
                [PY, "-m", "pytest", "-q", "-p", "no:cacheprovider", "-n", "8", "--timeout=900",
                 "--junitxml", str(wt / "junit.xml")],
                cwd=str(wt), env=env, timeout=3000,
            )
            tail = out.strip().splitlines()[-1] if out.strip() else ""
            meta["suite_tail"] = tail
            m = re.search(r"(\d+) passed", tail)
            f = re.search(r"(\d+) failed", tail)
            meta["suite_passed"] = int(m[1]) if m else None
            meta["suite_failed"] = int(f[1]) if f else 0
            base = set(json.loads(Path("/root/.vp/BASELINE.json").read_text())["stable_pass"])
            failed = set()
            try:
                import xml.etree.ElementTree as ET

                for tc in ET.parse(wt / "junit.xml").getroot().iter("testcase"):
                    if tc.find("failure") is not None or tc.find("error") is not None:
                        failed.add(f"{tc.get('classname')}::{tc.get('name')}")
            except Exception as e:  # noqa: BLE001
                meta["junit_error"] = str(e)
            meta["baseline_tests_broken"] = sorted(failed & base)
        results = {}
        for cid in ([] if "--no-checks" in sys.argv else check_ids):
            t0 = time.time()
            rc, out = sh([str(V / "check"), cid, "--tier", "quick"], cwd=str(V), env=dict(os.environ, VERIF_REPO=str(wt)), timeout=3000)
            vio = [l for l in out.splitlines() if l.startswith(("VIOLATION", "violation:", "HARNESS"))]
            results[cid] = {"exit": rc, "wall_s": round(time.time() - t0, 1), "lines": [v[:600] for v in vio[:3]]}
    finally:
        sh(["git", "-C", "/repo", "worktree", "remove", "--force", str(wt)])
        shutil.rmtree(wt, ignore_errors=True)
    ok = meta.get("demo_clean_exit") == 0 and meta.get("demo_patched_exit") not in (0, None) and (skip_suite or (meta.get("suite_passed", 0) or 0) >= 556 and not meta.get("baseline_tests_broken"))
    meta["confirmed"] = bool(ok)
    dest = V / "seeded" / name
    if ok:
        dest.mkdir(parents=True, exist_ok=True)
        for f in ("patch.diff", "demo.py", "notes.md"):
            if (raw / f).exists() and (raw / f).resolve() != (dest / f).resolve():
                shutil.copy(raw / f, dest / f)
        old = {}
        if (dest / "meta.json").exists():
            old = json.loads((dest / "meta.json").read_text())
        for k, v in old.items():
            if k not in meta:  # hand-written fields (needs, breaks, checks, round, notes ...) stay
                meta[k] = v
        (dest / "meta.json").write_text(json.dumps(meta, indent=1) + "\n")
    print(json.dumps(meta, indent=1))
    return 0


if __name__ == "__main__":
    sys.exit(main())
