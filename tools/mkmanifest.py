#!/venv/bin/python
"""Regenerate MANIFEST.json from the table below (and validate it)."""

import json
import sys
from pathlib import Path

V = Path(__file__).resolve().parent.parent

# id -> (category, technique, level text, level note, design ref)
CHECKS = {}


def add(pid, category, technique, text, note, ref):
    CHECKS[pid] = (category, technique, text, note, ref)


add(
    "C12", "exploration",
    "bounded-exhaustive token-sequence enumeration + Hypothesis; differential vs independent reference scanner and by-construction expected sets",
    "Every token sequence up to length 5 (quick) / 6 (thorough) over {start, end, three tag kinds, word, newline, space} and thousands of "
    "random longer ones, bare and in four comment syntaxes, are read by the real extract_reuse_info and compared with an independent "
    "left-to-right scanner and with the by-construction answer; a sample goes through `reuse lint --json`. Exploration, not proof: texts "
    "outside the token grammar (markers split by other text, overlapping marker fragments) are not generated.",
    "Trusts vlib/ref/ignoreblocks.py as the statement of the property and the harness's in-process CLI driver.",
    "DESIGN.md §4 C12",
)

add(
    "C05", "exploration",
    "bounded-exhaustive (glob, path) enumeration + Hypothesis model-guided paths; sandwich oracle narrow <= matches() <= wide from an independent glob model; automaton language inclusion witnesses; coverage-guided stage (atheris) over 'glob NUL path' byte strings with the same oracle",
    "All globs up to length 5 (quick) / 6 (thorough) over {a . / * \\} are compiled by the real AnnotationsItem and evaluated on all ~56k paths up to "
    "length 6 over a 6-letter alphabet (2*10^8 real matches() calls in quick), judged by an independent tokenizer-based model; random longer "
    "globs over a larger alphabet (regex metacharacters, non-ASCII, newline) with paths derived from the glob; sampled pairs go through a real "
    "REUSE.toml and `reuse lint --json`. The path quantifier is bounded by length, not decided by automaton inclusion (see DESIGN.md §9).",
    "Trusts vlib/ref/globlang.py (cross-checked every run against a backtracking matcher). '**/' matching zero directories is allowed, not required.",
    "DESIGN.md §4 C05",
)
add(
    "C20", "exploration",
    "Hypothesis over (holder, year, prefix) triples and notice sets; round trip build -> read and merge invariants against an independent notice reader",
    "Tens of thousands of generated notices are built by make_copyright_line, read back bare and inside five comment syntaxes, and compared with the "
    "by-construction line and (prefix, year, holder) groups; generated notice sets are merged and judged holder-wise (same holders, one line each, "
    "year span covers all stated years); the same through `reuse annotate [--merge-copyrights]` + `reuse lint --json`.",
    "Prefix table and notice syntax are re-stated from the man page; holders that are ambiguous by grammar (leading year/symbol, trailing comment terminator) are not generated.",
    "DESIGN.md §4 C20",
)

add(
    "C02", "exploration",
    "Hypothesis over tag kind x value grammar x 27 comment styles x 6 line forms x decoration; by-construction expected sets; file-level window/snippet/EOL cases through lint --json",
    "Tens of thousands of generated texts (1..5 tag lines in every documented comment syntax, as single-line, inline, block, terminator-on-tag-line and "
    "ASCII-art frame forms, with indentation, trailing blanks and tabs) are read by extract_reuse_info and must yield exactly the written values; ~2000 "
    "generated files per quick run place a tag against the 4096-byte boundary, add a snippet marker or an unparseable expression, use LF/CRLF/CR, in the "
    "file or its .license sibling, and are judged through `reuse lint --json`. One recorded finding (mirrored punctuation tail) is routed around by signature.",
    "Comment syntaxes are re-stated in vlib/gen/styles.py; values ending in a comment terminator and tags straddling byte 4096 are outside the generated domain.",
    "DESIGN.md §4 C02",
)

add(
    "C03", "exploration",
    "Hypothesis-generated trees (rule-straddling names x node kinds x Git layer x flags); reference covered-file model + git check-ignore as oracle; four observation channels",
    "About 2400 generated trees per quick run (names on both sides of every exclusion rule at every depth, empty files, binaries, symlinks to files / "
    "directories / nowhere / outside, LICENSES, .reuse, .hg, .sl, subprojects, half of them Git repositories with generated ignore rules, tracked and "
    "force-added files, manual submodules, sockets (entries that are neither file, directory nor link), all four flag combinations) are examined by lint --json, spdx, lint-file on every path and annotate -r on a "
    "copy; each observed file set must equal the model's COVERED set exactly (no covered file skipped, no excluded file examined).",
    "Trusts vlib/ref/covered.py and git check-ignore; nested LICENSES/.reuse/subprojects directories and ignored submodules are UNSPECIFIED; only Git is installed (no hg/jj/pijul).",
    "DESIGN.md §4 C03",
)

add(
    "C04", "exploration",
    "bounded-exhaustive enumeration of the (own info x .license x REUSE.toml chain) cell space, ~150 cells per generated project; reference attribution model from the property text",
    "All 18 750 two-level cells (6 own states x 5 .license states x 25 x 25 table options incl. 'two matching tables, later wins' in exact/glob shapes) "
    "in quick, all three-level cells in thorough (1/64 sample in quick), the dep5 grid, shared-table groups (one glob table serving several files) and "
    "the dep5+REUSE.toml conflict are run through `reuse lint --json`; every reported item (value, source path, source type) must equal the model's set.",
    "Trusts vlib/ref/attribution.py. Tables above an override and overrides without information are only weakly checked (statement silent).",
    "DESIGN.md §4 C04",
)

add(
    "C06", "exploration",
    "Hypothesis over (identifier class x use x source x provision) triples drawn from the whole bundled SPDX list, ~40 triples per lint run; reference inventory model (set algebra)",
    "About 60 000 (identifier, use, provision) triples per quick run, every identifier of the bundled licence and exception lists at least once, "
    "LicenseRef-, unknown and wrong-case names, used alone / with '+' / inside AND, OR, WITH, parentheses / in two files, carried by headers, "
    ".license files, REUSE.toml or dep5, provided as ID.txt, ID.md, ID, sub/ID.txt, ID+.txt or not at all; the five JSON collections, "
    "summary.used_licenses and the exit status must equal the model's.",
    "Trusts vlib/ref/inventory.py and the bundled SPDX JSON as domain data; one provider per identifier.",
    "DESIGN.md §4 C06",
)

add(
    "C01", "exploration",
    "Hypothesis-generated projects (compliant by construction + 0..4 injected defects, and fully random); independent model of the specification (attribution + inventory + covered) as oracle",
    "About 2500 generated projects per quick run are linted with `reuse lint --json` (with and without Git, with and without the worker pool); exit "
    "status, summary.compliant and all eight offender collections must equal what the model derives from the project description - soundness and "
    "completeness of every category, including 'nothing else is reported' for noise files (LICENSE, empty, symlinks, dangling symlinks, SPDX documents, ignored files).",
    "Trusts vlib/ref/{attribution,inventory,covered}.py; unreadable files are emulated by a directory named FILE.license (root ignores chmod).",
    "DESIGN.md §4 C01",
)

add(
    "C13", "exploration",
    "Hypothesis-generated projects; differential between the four lint formats (independent parsers), JSON self-consistency, and lint-file vs lint on generated path subsets / working directories / --root spellings",
    "About 1100 generated multi-defect projects per quick run are linted as --json, --plain, default, --lines and --quiet; parsed offender sets per "
    "category, exit statuses and the plain summary must agree, the JSON counters must equal the sizes of the JSON lists; lint-file is then run on a "
    "generated subset of paths (covered, excluded, LICENSES texts, directories; relative/absolute; from the root, a sub-directory with --root .. or "
    "absolute, or outside) and must report exactly lint's per-file problems for the covered files named, exit 1 iff any, exit 2 for a path outside the root.",
    "Trusts vlib/ref/lintparse.py; symlinks are not passed to lint-file (whether a named symlink means its target is not stated).",
    "DESIGN.md §4 C13",
)

add(
    "C18", "exploration",
    "Hypothesis-generated projects x spdx option combinations; independent tag-value reader; cross-check with lint --json, hashlib.sha1 and truth-table equivalence of LicenseConcluded",
    "About 1400 generated projects per quick run (C01's population with nested AND/OR/WITH expressions, several expressions per file, files padded to "
    "sizes around multiples of the 8192-byte checksum chunk, byte-identical files under one base name in two directories, LicenseRef- texts) are "
    "exported with every option combination; the document is parsed independently and every File section, SPDXID / DESCRIBES bijection, checksum, "
    "identifier set, notice set, LicenseConcluded (under every truth assignment) and extracted licence text is checked.",
    "Trusts vlib/ref/spdxtv.py and vlib/ref/boolexpr.py; '</text>' never occurs in generated texts.",
    "DESIGN.md §4 C18",
)

add(
    "C07", "exploration",
    "complete walk over the file-type tables + Hypothesis over the option product; round trip annotate -> lint --json / the tool's reader against by-construction expectations",
    "Every key of the extension and file-name tables (~325 types) is annotated with default options (thorough: also forced single/multi-line) and ~6000 "
    "sampled option combinations per quick run (forced styles, line modes, ten prefixes, year options, .license options, --no-replace, seven template "
    "kinds incl. information-dropping ones, binary / uncommentable / unrecognised files, pre-existing headers in own or foreign style) are executed; a "
    "reported success must read back as exactly before U requested, and a template that cannot carry requested information must not succeed.",
    "File-type tables are domain data read from reuse.comment; contributors ending in a comment character are excluded (C02's recorded finding).",
    "DESIGN.md §4 C07",
)

add(
    "C10", "exploration",
    "complete walk (file-type tables and --style names x line modes) + Hypothesis over options and tag-free bodies; metamorphic oracle: bytes after run 1 == bytes after run N",
    "Every file type and every --style name in default, --multi-line and --single-line mode, plus ~8000 sampled combinations per quick run (.license "
    "options, prefixes, year options, four template kinds, bodies with code / same-style comments / shebangs / blank runs / no final newline, LF/CRLF/CR, "
    "2..4 runs) are annotated repeatedly with identical arguments; the whole tree must be byte-identical after every later run and each requested tag "
    "line must occur exactly once.  A further stage repeats requests with ties (names differing in letter case only, one holder under two equally frequent "
    "prefixes with --merge-copyrights) in fresh interpreters under other PYTHONHASHSEED values.",
    "Bodies carry no REUSE tags of their own; a later run that is refused as a usage error (and changes nothing) is not a violation.",
    "DESIGN.md §4 C10",
)

add(
    "C08", "exploration",
    "Hypothesis over file layouts (BOM, declaration, pre-lines, existing header, post-lines, EOL, final newline) in 27 styles; by-construction outside lines compared byte-for-byte incl. terminators",
    "About 7000 generated files per quick run: every outside line carries a unique token, so the check finds them around the single inserted block and "
    "demands byte equality including line terminators, allowing only blank lines and trailing blanks directly adjacent to the block to differ; BOM "
    "first, first-line declaration first, no foreign EOL anywhere, final newline kept; replacing and --no-replace mode.",
    "Own-style comment lines are kept apart from the header block (the tool replaces the whole contiguous comment block by design); texts the third-party binary heuristic takes for binaries are only checked for 'FILE untouched'.",
    "DESIGN.md §4 C08",
)

add(
    "C11", "fault_enumeration",
    "Hypothesis over invocations (1..4 files x failure reason x .license / style options x argument order); which files fail is known by construction; whole-tree snapshot before/after",
    "About 6400 generated invocations per quick run inject one anticipated failure reason (terminator inside the holder under multi-line commenting, "
    "templates dropping licences / copyright / both, unrecognised extension, unsupported line mode, mutually exclusive options, missing template) into a "
    "mix of file types; the snapshot delta must touch succeeding files only, failing files and their .license siblings stay untouched / absent, "
    "succeeding files carry the request, exit status is 1 iff a file failed, and usage errors (exit 2) change nothing.",
    "Failure reasons are the ones the statement anticipates; crashes on undecodable input are judged by C16.",
    "DESIGN.md §4 C11",
)

add(
    "C09", "exploration",
    "Hypothesis rule-based state machine over annotate histories with a running model; invariant (superset / holder-wise year span) checked after every step through lint --json and the tool's reader",
    "About 1000 histories of up to 6 annotate invocations per quick run on files that start empty, with hand-written headers (own style, block form, "
    "foreign style) or a .license sibling; steps vary holders (recurring with other years, compact and spaced ranges), licences, contributors, prefixes, "
    "--style, --multi-line, --no-replace, --merge-copyrights, --skip-existing and templates; after each successful step nothing declared before may be "
    "missing, and skipped / failing steps must not change a byte.",
    "Histories are cut before the header approaches the 4 KiB read window (C02's subject); contributors are tracked only while every template used renders them.",
    "DESIGN.md §4 C09",
)

add(
    "C16", "fault_enumeration",
    "complete (REUSE.toml key x TOML type) table + Hypothesis-generated / corrupted TOML and dep5 documents, odd file bytes and injected read faults, each through every sub-command in-process; crash = any exception leaving main(); plus a coverage-guided stage (atheris / libFuzzer) on the TOML loader, the dep5 loader + converter and the content reader / header functions, oracle inside the target",
    "All 6 x 19 (key, value shape) documents in a root and a nested REUSE.toml, ~250 generated or corrupted TOML and dep5 documents per shard, ~170 "
    "covered files / .license siblings / LICENSES texts / templates made of arbitrary or degenerate bytes per shard, with EACCES and vanishing-file faults "
    "injected through an open() wrapper, are each run through lint (three formats), lint-file, spdx, annotate, download (one LicenseRef-, and --all over the identifiers the generated contents name, towards an address where nobody answers) and convert-dep5: no escaping "
    "exception, exit status in {0,1,2}, exit 2 names the file, clearly wrong types => exit 2, unreadable files are reported while the others still are. "
    "Entries are also removed right after os.walk listed them; project templates (used by annotate) and .gitmodules are made of odd bytes / token sequences; lint and spdx run "
    "once more after a successful convert-dep5. The atheris stage (16 campaigns per target, half from an empty corpus, half from a few valid inputs, with a dictionary) "
    "drives ReuseTOML.from_toml, ReuseDep5.from_file + toml_from_dep5 and reuse_info_of_file / find_and_replace_header in-process: only the exceptions the callers map to "
    "diagnostics may leave them; a saved input is replayed through the plain target function.",
    "In-process driving (an escaping exception is what a user sees as a traceback); read faults are injected into the reading commands only; whether a borderline value shape is 'broken' is asserted only for unambiguous types.",
    "DESIGN.md §4 C16",
)

add(
    "C17", "exploration",
    "bounded-exhaustive dep5 patterns + Hypothesis-generated dep5 files over witness trees; differential lint --json before vs after convert-dep5; snapshot delta; injected write fault",
    "Every valid dep5 pattern of up to 3 (quick) / 4 (thorough) atoms over {a b . / * ? \\* \\? \\\\} as a one-paragraph project, plus generated multi-"
    "paragraph dep5 files (several patterns per paragraph, multi-line copyright, licence bodies, comments, header fields), over trees whose paths are "
    "derived from the patterns (wildcards instantiated with and without '/', one-character mutations) and files with own headers; per-file "
    "attribution and exit status must be identical before and after the conversion, the tree delta must be {-dep5, +REUSE.toml}, a failing write must "
    "keep dep5, and without dep5 the command must refuse. Two recorded findings ('?', '*/') are accepted only when they explain every differing file.",
    "The tool's own lint before the conversion is the reference; vlib/ref/globlang.py only generates witness paths and judges which recorded finding explains a difference.",
    "DESIGN.md §4 C17",
)

add(
    "C19", "fault_enumeration",
    "Hypothesis over invocation sequences x per-identifier network plans served by a loopback HTTP stub; tree snapshot before/after + server log + exit status + follow-up lint",
    "About 2400 generated histories of 1..3 download invocations per quick run: explicit identifiers (valid, deprecated, 'ID+', unknown, LicenseRef- "
    "with --source file / directory / directory without the file), --all, -o; LICENSES/ absent, empty or already holding the target; from the root, a "
    "sub-directory, inside LICENSES/ (with and without Git) or outside with --root; pre-existing targets with text or with zero bytes (also for -o); each identifier answered with 200, 404, 500, 206 + part of the text, 204, a connection reset or "
    "a truncated body.  No pre-existing byte may change, only LICENSES/<id>.txt (or -o) may appear and must hold exactly the served / copied bytes, a "
    "failed identifier leaves no file and a non-zero exit status, LicenseRef- never reaches the server, and an exit-0 --all leaves no missing licence.",
    "The network is a loopback stub (reuse.download._SPDX_REPOSITORY_BASE_URL is redirected in-process); a transport error after the response started is a failed download of that identifier (since the repair 8b5ad2b; a traceback with non-zero status would still satisfy the statement).",
    "DESIGN.md §4 C19",
)

add(
    "C15", "exploration",
    "Hypothesis rule-based state machine over command histories on generated trees with an outside sentinel; invariant: content + metadata snapshot delta within the command's documented footprint",
    "About 770 histories of up to 7 commands per quick run (lint in all formats, lint-file, spdx [-o], supported-licenses, --help, --version, annotate on "
    "files and recursively on directories with .license options, convert-dep5, download of LicenseRef- / SPDX identifiers via a loopback stub with "
    "--source and -o; annotate -r also started in a sub-directory or elsewhere with --root) on trees with symlinks into a sentinel directory outside the project, ignored files, submodules, sockets, LICENSES/, .reuse/, read-only files: after "
    "every command the snapshot (type, size, mode, mtime_ns, sha1, link target) may differ only where the command is documented to write, never for "
    "exit-2 invocations, and never in the sentinel.",
    "Covered files below a directory come from the C03 model + git check-ignore; annotate is never given a symlink (a FILE.license that is a symlink must not be written through); Git's own metadata (.git of the project and of submodules) is outside the snapshot; root ignores permission bits.",
    "DESIGN.md §4 C15",
)

add(
    "C14", "exploration",
    "Hypothesis-generated trees; metamorphic oracle: identical normalised lint --json and spdx output across >= 17 run variants (pool sizes, permuted directory listings, PYTHONHASHSEED, cwd, --root spellings incl. one through a symbolic link) + 3 Git work-tree variants",
    "About 80 generated trees per quick run (nested REUSE.toml hierarchies with partial closest / aggregate / override tables, dep5, C01-style projects, "
    "stacked comment terminators, several expressions per file) are each linted and exported 16 ways: serially, with pools of 1/2/3/16 workers, under two "
    "permutations of every directory listing (serial and pooled), in fresh interpreters with three PYTHONHASHSEED values, from a sub-directory with "
    "--root .., and from outside with absolute, relative, non-normalised --root and 'other/link/..' through a symbolic link into the project; all normalised reports of one tree must be equal.  "
    "Then the tree becomes a Git work tree and is linted without --root from the root, a sub-directory and a nested directory with a LICENSES/ of its own: those three must agree.",
    "OS scheduling is not controlled (workers share no state; pool size and task order are varied instead); listing order is permuted by harness-owned wrappers of os.walk / glob.iglob.",
    "DESIGN.md §4 C14",
)

NOT_BUILT = "check not built yet in this revision of /verif (planned in DESIGN.md §4; property-based testing applies)"


def main():
    props = [json.loads(l) for l in (V / "properties.jsonl").read_text().splitlines() if l.strip()]
    checks = []
    for p in props:
        pid = p["id"]
        if pid not in CHECKS:
            continue
        cat, tech, text, note, ref = CHECKS[pid]
        checks.append({
            "property_id": pid,
            "quick_cmd": f"./check {pid} --tier quick",
            "thorough_cmd": f"./check {pid} --tier thorough",
            "evidence_file": f"evidence/{pid}.json",
            "replay_cmd_template": f"./check {pid} --replay {{path}}",
            "engine": "hypothesis+enumeration",
            "level_claimed": {"category": cat, "text": text, "design_ref": ref},
            "level_note": note,
            "technique": tech,
        })
    na_file = V / "tools" / "not_applicable.json"
    na_reasons = json.loads(na_file.read_text()) if na_file.exists() else {}
    not_applicable = [
        {"property_id": p["id"], "reason": na_reasons.get(p["id"], NOT_BUILT)}
        for p in props if p["id"] not in CHECKS
    ]
    manifest = {
        "version": 1,
        "setup_cmd": "sh tools/setup.sh",
        "hooks": {
            "guard": "FSFE_REUSE_TOOL_VERIF",
            "enable": "none needed: pure-Python repository imported from /repo/src (or $VERIF_REPO/src); all instrumentation is monkey-patching from the harness process, no source hooks were added",
            "baseline_off_cmd": "cd /repo && /venv/bin/python -m pytest -ra -q -p no:cacheprovider --timeout=900 --continue-on-collection-errors",
            "source_commits": [],
            "add_only": True,
        },
        "engines": [
            {"name": "hypothesis", "path": "/venv/lib/python3.12/site-packages/hypothesis (6.168.0; re-installed from /opt/veriftools/wheels into /verif/.deps by setup if missing)",
             "serves_properties": sorted(CHECKS), "kind_free_text": "property-based testing: strategies, rule-based state machines, shrinking; seeded from VERIF_SEED"},
            {"name": "enumeration", "path": "vlib/ (itertools.product over finite sub-spaces, sharded over 16 processes)",
             "serves_properties": sorted(CHECKS), "kind_free_text": "bounded-exhaustive generation of the finite sub-spaces named by the properties"},
        ],
        "checks": checks,
        "notes": (V / "tools" / "notes.txt").read_text() if (V / "tools" / "notes.txt").exists() else "",
        "not_applicable": not_applicable,
    }
    (V / "MANIFEST.json").write_text(json.dumps(manifest, indent=1, ensure_ascii=False) + "\n")
    try:
        import jsonschema

        schema = json.loads(Path("/root/.vp/MANIFEST.schema.json").read_text())
        jsonschema.validate(manifest, schema)
        print(f"MANIFEST.json written and valid: {len(checks)} checks, {len(not_applicable)} not claimed")
    except ImportError:
        print(f"MANIFEST.json written ({len(checks)} checks); jsonschema not importable here, not validated")


if __name__ == "__main__":
    sys.exit(main())
