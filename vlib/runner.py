"""Entry point behind ``/verif/check``.

    ./check <ID> [--tier quick|thorough] [--replay FILE]

Parent mode forks shard processes (fresh interpreters, so the code under test
is re-imported from the working tree and may itself fork a worker pool), merges
their counters, writes ``evidence/<ID>.json`` and prints the verdict.
Exit status: 0 held / 1 violation (with a ``VIOLATION`` line) / 2 harness error.
"""

import argparse
import importlib
import json
import os
import subprocess
import sys
import tempfile
import time
import traceback
from collections import Counter
from pathlib import Path

VERIF_DIR = Path(__file__).resolve().parent.parent
sys.path.insert(0, str(VERIF_DIR))

from vlib import env  # noqa: E402
from vlib.core import (  # noqa: E402
    Ctx,
    HarnessError,
    Violation,
    decanon,
    load_corpus,
)
from vlib import findings  # noqa: E402


def load_prop(prop_id: str):
    return importlib.import_module(f"props.{prop_id.lower()}")


def shard_main(args) -> int:
    env.setup()
    mod = load_prop(args.id)
    ctx = Ctx(args.id, args.tier, args.seed, args.shard, args.nshards)
    status = 0
    try:
        try:
            if args.shard == 0 and hasattr(mod, "replay"):
                for name, case in load_corpus(args.id):
                    ctx.label("corpus-replay")
                    try:
                        mod.replay(ctx, case)
                    except Violation as v:
                        ctx.record_violation(v)
            if not ctx.violations:
                mod.run(ctx)
        except Violation as v:
            ctx.record_violation(v)
        except HarnessError as e:
            print(f"HARNESS-ERROR shard={args.shard}: {e}", file=sys.stderr)
            status = 2
        except Exception:  # noqa: BLE001
            print(f"HARNESS-ERROR shard={args.shard}:\n{traceback.format_exc()}", file=sys.stderr)
            status = 2
    finally:
        ctx.cleanup()
    res = ctx.result()
    res["status"] = status
    Path(args.out).write_text(json.dumps(res))
    return status


def replay_main(args) -> int:
    env.setup()
    mod = load_prop(args.id)
    ctx = Ctx(args.id, args.tier, args.seed, 0, 1)
    try:
        data = json.loads(Path(args.replay).read_text())
        case = decanon(data.get("case", data))
        try:
            mod.replay(ctx, case)
        except Violation as v:
            print(f"replay: {v.message}")
            print(f"VIOLATION property={args.id} replay={args.replay}")
            return 1
        for sig, n in ctx.known_hits.items():
            print(f"KNOWN-FINDING: property={args.id} {ctx.accepted.get(sig, sig)}")
        print(f"replay of {args.replay}: property held")
        return 0
    except HarnessError as e:
        print(f"HARNESS-ERROR: {e}", file=sys.stderr)
        return 2
    finally:
        ctx.cleanup()


def parent_main(args) -> int:
    t0 = time.time()
    try:
        env.setup()
        findings.parse()
        mod = load_prop(args.id)
    except Exception:  # noqa: BLE001
        print(f"HARNESS-ERROR: {traceback.format_exc()}", file=sys.stderr)
        return 2
    nshards = int(getattr(mod, "SHARDS", {}).get(args.tier, 16))
    nshards = max(1, min(nshards, int(os.environ.get("VERIF_MAX_SHARDS", "16"))))
    tmp = Path(tempfile.mkdtemp(prefix=f"verif-{args.id}-parent-", dir="/dev/shm" if os.path.isdir("/dev/shm") else None))
    procs = []
    child_env = dict(os.environ)
    child_env.setdefault("PYTHONHASHSEED", "0")
    for i in range(nshards):
        out = tmp / f"shard{i}.json"
        cmd = [
            sys.executable, "-B", str(Path(__file__).resolve()), args.id,
            "--tier", args.tier, "--seed", str(args.seed),
            "--shard", str(i), "--nshards", str(nshards), "--out", str(out),
        ]
        procs.append((i, out, subprocess.Popen(cmd, cwd=str(VERIF_DIR), env=child_env)))
    results = []
    status = 0
    for i, out, p in procs:
        rc = p.wait()
        if out.exists():
            results.append(json.loads(out.read_text()))
        if rc != 0 or not out.exists():
            status = 2
            print(f"HARNESS-ERROR: shard {i} exit {rc}", file=sys.stderr)
    import shutil

    shutil.rmtree(tmp, ignore_errors=True)
    if status == 2:
        return 2

    evaluations = sum(r["evaluations"] for r in results)
    nontrivial = set()
    classes: Counter = Counter()
    known_hits: Counter = Counter()
    excluded: Counter = Counter()
    samples = []
    known_examples = {}
    extra: dict = {}
    violations = []
    for r in sorted(results, key=lambda r: r["shard"]):
        nontrivial.update(r["nontrivial"])
        classes.update(r["classes"])
        known_hits.update(r["known_hits"])
        excluded.update(r["excluded"])
        for k, v in r["known_examples"].items():
            known_examples.setdefault(k, v)
        for k, v in r["extra"].items():
            if isinstance(v, (int, float)) and not isinstance(v, bool):
                extra[k] = extra.get(k, 0) + v
            elif isinstance(v, bool):
                extra[k] = extra.get(k, True) and v
            else:
                extra.setdefault(k, v)
        violations.extend(r["violations"])
    # interleave samples from the shards
    pools = [r["samples"] for r in sorted(results, key=lambda r: r["shard"])]
    while len(samples) < 8 and any(pools):
        for pl in pools:
            if pl and len(samples) < 8:
                samples.append(pl.pop(0))

    accepted = findings.accepted_signatures(args.id)
    coverage = {
        "evaluations": evaluations,
        "distinct_nontrivial": len(nontrivial),
        "rule": getattr(mod, "RULE", ""),
        "samples": samples,
        "classes": dict(sorted(classes.items())),
        "known_findings_hit": dict(known_hits),
        "excluded_by_construction": dict(excluded),
        "shards": nshards,
    }
    coverage.update(extra)
    evidence = {
        "property_id": args.id,
        "tier": args.tier,
        "seed": args.seed,
        "level": getattr(mod, "LEVEL", "exploration"),
        "coverage": coverage,
        "assumptions": list(getattr(mod, "ASSUMPTIONS", [])),
        "wall_s": round(time.time() - t0, 2),
        "violations": len(violations),
        "repo": str(env.repo_dir()),
    }
    # evidence/ describes runs against /repo itself; a run pointed elsewhere (VERIF_REPO, used to try seeded
    # changes in scratch worktrees) must not overwrite it
    evdir = VERIF_DIR / ("evidence" if env.repo_dir() == Path("/repo") else "evidence-alt")
    evdir.mkdir(exist_ok=True)
    (evdir / f"{args.id}.json").write_text(
        json.dumps(evidence, indent=1, ensure_ascii=False, sort_keys=False) + "\n"
    )

    try:
        import jsonschema

        schema = json.loads((VERIF_DIR / "tools" / "EVIDENCE.schema.json").read_text())
        jsonschema.validate(evidence, schema)
    except ImportError:
        pass
    except Exception as e:  # noqa: BLE001
        if not violations:
            print(f"HARNESS-ERROR: evidence does not validate: {e}", file=sys.stderr)
            return 2

    for sig in sorted(known_hits):
        print(f"KNOWN-FINDING: property={args.id} {accepted.get(sig, sig)}")
    print(
        f"{args.id} {args.tier} seed={args.seed}: evaluations={evaluations} "
        f"distinct_nontrivial={len(nontrivial)} wall={evidence['wall_s']}s"
    )
    if violations:
        for v in violations[:1]:
            print(f"violation: {v['message'][:2000]}")
            print(f"VIOLATION property={args.id} replay={v['replay']}")
        return 1
    if len(nontrivial) < 2:
        print("HARNESS-ERROR: fewer than 2 distinct non-trivial cases", file=sys.stderr)
        return 2
    return 0


def main() -> int:
    ap = argparse.ArgumentParser()
    ap.add_argument("id")
    ap.add_argument("--tier", default=os.environ.get("VERIF_TIER") or "quick", choices=["quick", "thorough"])
    ap.add_argument("--seed", type=int, default=None)
    ap.add_argument("--replay")
    ap.add_argument("--shard", type=int)
    ap.add_argument("--nshards", type=int, default=1)
    ap.add_argument("--out")
    args = ap.parse_args()
    args.id = args.id.upper()
    if args.seed is None:
        try:
            args.seed = int(os.environ.get("VERIF_SEED", "1"))
        except ValueError:
            args.seed = 1
    os.chdir(VERIF_DIR)
    if args.replay:
        return replay_main(args)
    if args.shard is not None:
        return shard_main(args)
    return parent_main(args)


if __name__ == "__main__":
    sys.exit(main())
