"""Shared machinery for the annotate family (C07–C11): option generation,
command lines, by-construction expectations, read-back."""

import datetime
import json

from hypothesis import strategies as st

from . import cli, tree
from .gen import project as P
from .gen import styles as S
from .gen import values as V

TEMPLATES = {
    "prose": (
        "prose.jinja2",
        "This file is part of the Thing.\n{% for copyright_line in copyright_lines %}\n{{ copyright_line }}\n{% endfor %}\n"
        "{% for contributor_line in contributor_lines %}\nSPDX-FileContributor: {{ contributor_line }}\n{% endfor %}\n\n"
        "{% for expression in spdx_expressions %}\nSPDX-License-Identifier: {{ expression }}\n{% endfor %}\nEnd of header prose.\n",
    ),
    "nocontrib": (
        "nocontrib.jinja2",
        "{% for copyright_line in copyright_lines %}\n{{ copyright_line }}\n{% endfor %}\n\n"
        "{% for expression in spdx_expressions %}\nSPDX-License-Identifier: {{ expression }}\n{% endfor %}\n",
    ),
    # a fixed notice of the template's own next to the loops: the rendered header says more than was asked for (refused as well)
    "fixedline": (
        "fixedline.jinja2",
        "SPDX-FileCopyrightText: 2000 Fixed Notice Of The Template\n{% for copyright_line in copyright_lines %}\n{{ copyright_line }}\n{% endfor %}\n"
        "{% for contributor_line in contributor_lines %}\nSPDX-FileContributor: {{ contributor_line }}\n{% endfor %}\n\n"
        "{% for expression in spdx_expressions %}\nSPDX-License-Identifier: {{ expression }}\n{% endfor %}\n",
    ),
    # information-dropping templates (must be refused)
    "droplic": ("droplic.jinja2", "{% for copyright_line in copyright_lines %}\n{{ copyright_line }}\n{% endfor %}\nLicensed somehow.\n"),
    "dropcop": ("dropcop.jinja2", "{% for expression in spdx_expressions %}\nSPDX-License-Identifier: {{ expression }}\n{% endfor %}\n"),
    "dropboth": ("dropboth.jinja2", "Nothing to see here.\n"),
    # keeps the notices and the LAST licence only
    "droplast": ("droplast.jinja2", "{% for copyright_line in copyright_lines %}\n{{ copyright_line }}\n{% endfor %}\n\nSPDX-License-Identifier: {{ spdx_expressions | last }}\n"),
    # ignores what it is given and states a fixed notice + licence: right for a file without information and the matching request
    # ('Jane Doe', 2020, MIT), information-dropping for a file that already declares something else
    "fixedonly": ("fixedonly.jinja2", "SPDX-FileCopyrightText: 2020 Jane Doe\n\nSPDX-License-Identifier: MIT\n"),
    # the same, pre-commented
    "cdroplic": ("cdroplic.commented.jinja2", "{% for copyright_line in copyright_lines %}\n# {{ copyright_line }}\n{% endfor %}\n# Licensed somehow.\n"),
    "cdropcop": ("cdropcop.commented.jinja2", "{% for expression in spdx_expressions %}\n# SPDX-License-Identifier: {{ expression }}\n{% endfor %}\n"),
    "cdropboth": ("cdropboth.commented.jinja2", "# Nothing to see here.\n"),
}
DROPPING = {"droplic", "dropcop", "dropboth", "cdroplic", "cdropcop", "cdropboth", "droplast"}


def commented_template(style: str) -> str:
    """A pre-commented template in *style* (single-line form if the style has
    one, else a block)."""
    single, multi = S.STYLES[style]
    if single is not None:
        pre = single + " "
        return (
            "{% for copyright_line in copyright_lines %}\n" + pre + "{{ copyright_line }}\n{% endfor %}\n"
            "{% for contributor_line in contributor_lines %}\n" + pre + "SPDX-FileContributor: {{ contributor_line }}\n{% endfor %}\n"
            + single + "\n"
            "{% for expression in spdx_expressions %}\n" + pre + "SPDX-License-Identifier: {{ expression }}\n{% endfor %}\n"
        )
    start, mid, end = multi
    pre = (mid + " ") if mid else ""
    return (
        start + "\n"
        "{% for copyright_line in copyright_lines %}\n" + pre + "{{ copyright_line }}\n{% endfor %}\n"
        "{% for contributor_line in contributor_lines %}\n" + pre + "SPDX-FileContributor: {{ contributor_line }}\n{% endfor %}\n"
        "{% for expression in spdx_expressions %}\n" + pre + "SPDX-License-Identifier: {{ expression }}\n{% endfor %}\n"
        + end + "\n"
    )


def style_of(name: str):
    """The tool's file-type table (domain data): style shorthand for *name*,
    'uncommentable', 'empty' or None (unrecognised)."""
    from reuse.comment import get_comment_style

    cls = get_comment_style(name)
    if cls is None:
        return None
    if cls.__name__ == "UncommentableCommentStyle":
        return "uncommentable"
    if cls.__name__ == "EmptyCommentStyle":
        return "empty"
    return cls.SHORTHAND


@st.composite
def request(draw, with_contributors=True, max_holders=3):
    """What is asked of one annotate invocation."""
    # copyright holders may end in any punctuation ("Yahoo!", "Team C#"): the notice reader keeps such tails
    holders = draw(st.lists(V.holder(markers=True), min_size=0, max_size=max_holders, unique=True))
    licences = draw(st.lists(V.expression(1), min_size=0, max_size=2, unique=True))
    contributors = draw(st.lists(V.safe_holder(), min_size=0, max_size=2, unique=True)) if with_contributors else []
    if not (holders or licences or contributors):
        holders = ["Jane Doe"]
    prefix = draw(st.one_of(st.none(), st.none(), st.sampled_from(sorted(V.PREFIXES))))
    ymode = draw(st.sampled_from(["one", "one", "two", "three", "exclude", "today"]))
    years = {"one": 1, "two": 2, "three": 3}.get(ymode, 0)
    years = [str(draw(st.integers(1980, 2030))) for _ in range(years)]
    return {"holders": holders, "licences": licences, "contributors": contributors, "prefix": prefix, "years": years,
            "exclude_year": ymode == "exclude"}


def year_string(req):
    if req["exclude_year"]:
        return None
    if not req["years"]:
        return str(datetime.date.today().year)
    if len(req["years"]) == 1:
        return req["years"][0]
    return f"{min(req['years'])} - {max(req['years'])}"


def requested_notices(req):
    y = year_string(req)
    return {V.notice(req["prefix"] or "spdx", y, h) for h in req["holders"]}


def norm_expr(text: str) -> str:
    from reuse import _LICENSING

    # a parsed object: the expression library's own equality decides sameness (A AND B == B AND A)
    return _LICENSING.parse(text)


def request_args(req):
    args = []
    for h in req["holders"]:
        args += ["--copyright", h]
    for lic in req["licences"]:
        args += ["--license", lic]
    for c in req["contributors"]:
        args += ["--contributor", c]
    if req["prefix"]:
        args += ["--copyright-prefix", req["prefix"]]
    for y in req["years"]:
        args += ["--year", y]
    if req["exclude_year"]:
        args.append("--exclude-year")
    return args


def install_templates(root, style=None):
    files = {f".reuse/templates/{fn}": text for fn, text in TEMPLATES.values()}
    if style and style in S.STYLES and style not in ("jinja", "handlebars"):
        files[f".reuse/templates/precommented-{style}.commented.jinja2"] = commented_template(style)
    tree.write_tree(root, files)


def read_back(root, relpath):
    """(copyright set, licence set (normalised strings), contributor set, lint
    result) of *relpath* as the tool's own linter / reader sees it."""
    from reuse.extract import extract_reuse_info

    res, data = tree.lint_json(root)
    if data is None:
        return None, None, None, res
    ent = tree.file_entry(data, relpath)
    if ent is None:
        return None, None, None, res
    cop, lic = tree.entry_sets(ent)
    lic = {norm_expr(x) for x in lic}
    # contributors are not part of the lint report: read the source file with the tool's reader
    sources = {c["source"] for c in ent["copyrights"]} | {e["source"] for e in ent["spdx_expressions"]}
    target = root / (relpath + ".license") if (root / (relpath + ".license")).exists() else root / relpath
    con = set()
    try:
        text = target.read_bytes()[:4096].decode("utf-8", "replace").replace("\r\n", "\n").replace("\r", "\n")
        con = set(extract_reuse_info(text).contributor_lines)
    except Exception:  # noqa: BLE001
        con = None
    return cop, lic, con, res


def snapshot(root):
    """relpath -> bytes (files) / ('link', target)."""
    import os

    snap = {}
    for dirpath, dirnames, filenames in os.walk(root):
        for n in filenames + [d for d in dirnames if os.path.islink(os.path.join(dirpath, d))]:
            p = os.path.join(dirpath, n)
            r = os.path.relpath(p, root)
            if os.path.islink(p):
                snap[r] = ("link", os.readlink(p))
            else:
                with open(p, "rb") as fp:
                    snap[r] = fp.read()
    return snap
