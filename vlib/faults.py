"""Faults the harness owns: unreadable and vanishing files.

The sandbox runs as root, so chmod cannot produce EACCES.  For the duration of
one in-process command, ``open`` (builtins / io, which pathlib uses) is wrapped:
reading a path in the fault plan raises PermissionError, or removes the file
and raises FileNotFoundError.  With the fork start method worker pools inherit
the wrappers.
"""

import builtins
import contextlib
import io
import os


@contextlib.contextmanager
def injected(plan: dict):
    """*plan*: absolute real path -> "eacces" | "vanish"."""
    if not plan:
        yield
        return
    real_open = builtins.open
    real_io_open = io.open
    plan = {os.path.realpath(k): v for k, v in plan.items()}

    def check(file, mode):
        if isinstance(file, int):
            return
        try:
            p = os.path.realpath(os.fspath(file))
        except TypeError:
            return
        kind = plan.get(p)
        if kind == "nowrite":
            if any(c in mode for c in "wax+"):
                raise OSError(28, "No space left on device", str(file))
            return
        if kind and not any(c in mode for c in "wax+"):
            if kind == "eacces":
                raise PermissionError(13, "Permission denied", str(file))
            if kind == "vanish":
                with contextlib.suppress(OSError):
                    os.unlink(p)
                raise FileNotFoundError(2, "No such file or directory", str(file))

    def fake_open(file, mode="r", *a, **kw):
        check(file, mode)
        return real_open(file, mode, *a, **kw)

    def fake_io_open(file, mode="r", *a, **kw):
        check(file, mode)
        return real_io_open(file, mode, *a, **kw)

    builtins.open = fake_open
    io.open = fake_io_open
    try:
        yield
    finally:
        builtins.open = real_open
        io.open = real_io_open
