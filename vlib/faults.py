"""Faults the harness owns: unreadable and vanishing files.

The sandbox runs as root, so chmod cannot produce EACCES.  For the duration of
one in-process command, ``open`` (builtins / io, which pathlib uses) is wrapped:
reading a path in the fault plan raises PermissionError, or removes the file
and raises FileNotFoundError.  With the fork start method worker pools inherit
the wrappers.
"""

import builtins
import contextlib
import io
import os


@contextlib.contextmanager
def injected(plan: dict):
    """*plan*: absolute real path -> "eacces" | "vanish" | "nowrite" | "vanish-listed".

    "vanish-listed": the entry (file or directory) is removed right after the
    directory holding it has been listed by os.walk and before the walker's
    consumer gets to see the listing, i.e. it disappears between enumeration and
    the first look at it.  "vanish-listed-2": the same at the second time the
    entry is listed (the tool walks the tree once for configuration files and
    once for covered files)."""
    if not plan:
        yield
        return
    real_open = builtins.open
    real_io_open = io.open
    plan = {os.path.realpath(k): v for k, v in plan.items()}

    def check(file, mode):
        if isinstance(file, int):
            return
        try:
            p = os.path.realpath(os.fspath(file))
        except TypeError:
            return
        kind = plan.get(p)
        if kind == "nowrite":
            if any(c in mode for c in "wax+"):
                raise OSError(28, "No space left on device", str(file))
            return
        if kind in ("eacces", "vanish") and not any(c in mode for c in "wax+"):
            if kind == "eacces":
                raise PermissionError(13, "Permission denied", str(file))
            if kind == "vanish":
                with contextlib.suppress(OSError):
                    os.unlink(p)
                raise FileNotFoundError(2, "No such file or directory", str(file))

    def fake_open(file, mode="r", *a, **kw):
        check(file, mode)
        return real_open(file, mode, *a, **kw)

    def fake_io_open(file, mode="r", *a, **kw):
        check(file, mode)
        return real_io_open(file, mode, *a, **kw)

    real_walk = os.walk
    seen = {}

    def fake_walk(top, *a, **kw):
        import shutil

        for dirpath, dirs, files in real_walk(top, *a, **kw):
            for name in list(dirs) + list(files):
                p = os.path.realpath(os.path.join(os.fspath(dirpath), name))
                kind = plan.get(p)
                if kind == "vanish-listed-2":
                    seen[p] = seen.get(p, 0) + 1
                if kind == "vanish-listed" or (kind == "vanish-listed-2" and seen[p] >= 2):
                    if os.path.isdir(p):
                        shutil.rmtree(p, ignore_errors=True)
                    else:
                        with contextlib.suppress(OSError):
                            os.unlink(p)
            yield dirpath, dirs, files

    builtins.open = fake_open
    io.open = fake_io_open
    if {"vanish-listed", "vanish-listed-2"} & set(plan.values()):
        os.walk = fake_walk
    try:
        yield
    finally:
        builtins.open = real_open
        io.open = real_io_open
        os.walk = real_walk
