"""Environment pinning: which tree is under test, locale, git isolation."""

import os
import sys
from pathlib import Path

VERIF_DIR = Path(__file__).resolve().parent.parent
_DONE = False


def repo_dir() -> Path:
    return Path(os.environ.get("VERIF_REPO", "/repo")).resolve()


def setup() -> Path:
    """Make ``import reuse`` resolve to the working tree under test and export
    the process environment every check runs with.  Idempotent."""
    global _DONE
    repo = repo_dir()
    src = repo / "src"
    if not _DONE:
        deps = VERIF_DIR / ".deps"
        if deps.is_dir() and str(deps) not in sys.path:
            sys.path.append(str(deps))
        # the tree under test first, before the editable .pth of /venv
        sys.path.insert(0, str(src))
        os.environ["LC_ALL"] = "C"
        os.environ["LANGUAGE"] = ""
        os.environ["GIT_CONFIG_NOSYSTEM"] = "1"
        os.environ["GIT_CONFIG_GLOBAL"] = "/dev/null"
        os.environ["GIT_AUTHOR_NAME"] = "v"
        os.environ["GIT_AUTHOR_EMAIL"] = "v@example.org"
        os.environ["GIT_COMMITTER_NAME"] = "v"
        os.environ["GIT_COMMITTER_EMAIL"] = "v@example.org"
        os.environ["GIT_ALLOW_PROTOCOL"] = "file"
        os.environ.pop("_SUPPRESS_DEP5_WARNING", None)
        os.environ.setdefault("FSFE_REUSE_TOOL_VERIF", "1")
        os.environ.pop("PYTHONPATH", None)
        import logging

        # messages of the code under test ("Could not parse ...") are not ours
        logging.lastResort = None
        logging.getLogger("reuse").addHandler(logging.NullHandler())
        _DONE = True
    import reuse  # noqa: PLC0415

    got = Path(reuse.__file__).resolve()
    if src not in got.parents:
        from .core import HarnessError

        raise HarnessError(f"reuse imported from {got}, expected under {src}")
    return repo
