"""Materialising generated trees and calling the linter on them."""

import json
import os
import stat
import shutil
import subprocess
from pathlib import Path
from typing import Any, Optional

from . import cli
from .core import HarnessError


def write_tree(root: Path, files: dict) -> None:
    """*files*: relpath -> bytes | str | ("symlink", target) | ("dir",) | ("socket",)."""
    for rel, content in files.items():
        p = root / rel
        p.parent.mkdir(parents=True, exist_ok=True)
        if isinstance(content, tuple):
            if content[0] == "symlink":
                os.symlink(content[1], p)
            elif content[0] == "dir":
                p.mkdir(exist_ok=True)
            elif content[0] == "socket":
                # a directory entry that is neither file, directory nor link; opening it fails at once (ENXIO), it never blocks
                os.mknod(p, 0o644 | stat.S_IFSOCK)
            else:
                raise HarnessError(f"unknown node kind {content!r}")
        elif isinstance(content, str):
            p.write_bytes(content.encode("utf-8"))
        else:
            p.write_bytes(content)


def rmtree(path: Path) -> None:
    def onerr(func, p, exc):
        try:
            os.chmod(p, 0o700)
            func(p)
        except OSError:
            pass

    shutil.rmtree(path, onerror=onerr)


def git(root: Path, *args: str, check: bool = True) -> subprocess.CompletedProcess:
    p = subprocess.run(
        ["git", *args], cwd=str(root), capture_output=True, check=False
    )
    if check and p.returncode != 0:
        raise HarnessError(f"git {' '.join(args)} failed: {p.stderr.decode()[:500]}")
    return p


def git_init(root: Path) -> None:
    git(root, "init", "-q", "-b", "main")


def lint_json(root: Path, *, extra: tuple = (), mp: bool = False, cwd: Optional[Path] = None) -> tuple[cli.Result, Optional[dict]]:
    args = list(extra)
    if not mp:
        args.append("--no-multiprocessing")
    args += ["lint", "--json"]
    res = cli.run(args, cwd or root)
    data = None
    if res.crash is None and res.code in (0, 1):
        try:
            data = json.loads(res.out)
        except json.JSONDecodeError:
            data = None
    return res, data


def file_entry(data: dict, relpath: str) -> Optional[dict]:
    for f in data.get("files", []):
        if f["path"] == relpath or f["path"] == "./" + relpath:
            return f
    return None


def entry_sets(entry: dict) -> tuple[set, set]:
    return (
        {c["value"] for c in entry["copyrights"]},
        {e["value"] for e in entry["spdx_expressions"]},
    )
