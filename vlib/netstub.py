"""Loopback stand-in for the SPDX licence-text repository (C19).

A ThreadingHTTPServer on 127.0.0.1:<ephemeral port> serves a per-identifier
plan: ("ok", body) | ("status", code) | ("status-body", code, body) | ("reset",) | ("short", body).  The
harness points ``reuse.download._SPDX_REPOSITORY_BASE_URL`` at it for the
duration of one command.
"""

import contextlib
import http.server
import socket
import struct
import threading


class Stub:
    def __init__(self):
        self.plan = {}
        self.log = []
        stub = self

        class Handler(http.server.BaseHTTPRequestHandler):
            def log_message(self, *a):  # silence
                pass

            def do_GET(self):
                name = self.path.rsplit("/", 1)[-1]
                ident = name[:-4] if name.endswith(".txt") else name
                stub.log.append(ident)
                action = stub.plan.get(ident, ("status", 404))
                if action[0] == "ok":
                    body = action[1]
                    self.send_response(200)
                    self.send_header("Content-Type", "text/plain; charset=utf-8")
                    self.send_header("Content-Length", str(len(body)))
                    self.end_headers()
                    self.wfile.write(body)
                elif action[0] == "status":
                    self.send_response(action[1])
                    self.send_header("Content-Length", "0")
                    self.end_headers()
                elif action[0] == "status-body":
                    # a 2xx answer that is not the licence text (206 Partial Content, 204 No Content)
                    body = action[2]
                    self.send_response(action[1])
                    self.send_header("Content-Type", "text/plain; charset=utf-8")
                    self.send_header("Content-Length", str(len(body)))
                    self.end_headers()
                    self.wfile.write(body)
                elif action[0] == "short":
                    body = action[1]
                    self.send_response(200)
                    self.send_header("Content-Length", str(len(body) + 50))
                    self.end_headers()
                    self.wfile.write(body)
                    self.wfile.flush()
                    self.connection.shutdown(socket.SHUT_RDWR)
                else:  # reset
                    with contextlib.suppress(OSError):
                        self.connection.setsockopt(socket.SOL_SOCKET, socket.SO_LINGER, struct.pack("ii", 1, 0))
                    self.connection.close()

        self.server = http.server.ThreadingHTTPServer(("127.0.0.1", 0), Handler)
        self.server.daemon_threads = True
        self.thread = threading.Thread(target=self.server.serve_forever, daemon=True)
        self.thread.start()
        self.url = f"http://127.0.0.1:{self.server.server_address[1]}/text/"

    @contextlib.contextmanager
    def active(self, plan):
        import reuse.download as D

        self.plan = dict(plan)
        del self.log[:]
        old = D._SPDX_REPOSITORY_BASE_URL
        D._SPDX_REPOSITORY_BASE_URL = self.url
        try:
            yield self
        finally:
            D._SPDX_REPOSITORY_BASE_URL = old

    def close(self):
        self.server.shutdown()
        self.server.server_close()
