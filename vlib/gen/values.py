"""Value generators shared by the properties: identifiers, SPDX expressions,
copyright holders, years, copyright prefixes.  Everything is drawn from
Hypothesis strategies."""

import json
import re

from hypothesis import strategies as st

from .. import env
from .styles import ALL_TERMINATORS

# --copyright-prefix names and the text they stand for (man page reuse-annotate)
PREFIXES = {
    "spdx": "SPDX-FileCopyrightText:",
    "spdx-c": "SPDX-FileCopyrightText: (C)",
    "spdx-symbol": "SPDX-FileCopyrightText: ©",
    "spdx-string": "SPDX-FileCopyrightText: Copyright",
    "spdx-string-c": "SPDX-FileCopyrightText: Copyright (C)",
    "spdx-string-symbol": "SPDX-FileCopyrightText: Copyright ©",
    "string": "Copyright",
    "string-c": "Copyright (C)",
    "string-symbol": "Copyright ©",
    "symbol": "©",
}

_LISTS = None


def spdx_lists():
    """(current licences, deprecated licences, exceptions, deprecated
    exceptions) from the bundled SPDX data — domain data, not behaviour."""
    global _LISTS
    if _LISTS is None:
        repo = env.repo_dir()
        lic = json.loads((repo / "src/reuse/resources/licenses.json").read_text())["licenses"]
        exc = json.loads((repo / "src/reuse/resources/exceptions.json").read_text())["exceptions"]
        cur = sorted(x["licenseId"] for x in lic if not x.get("isDeprecatedLicenseId"))
        dep = sorted(x["licenseId"] for x in lic if x.get("isDeprecatedLicenseId"))
        ex = sorted(x["licenseExceptionId"] for x in exc if not x.get("isDeprecatedLicenseId"))
        exd = sorted(x["licenseExceptionId"] for x in exc if x.get("isDeprecatedLicenseId"))
        _LISTS = (cur, dep, ex, exd)
    return _LISTS


COMMON_IDS = ["MIT", "GPL-3.0-or-later", "Apache-2.0", "CC0-1.0", "0BSD", "BSD-3-Clause", "EUPL-1.2", "ISC", "MPL-2.0", "Unlicense"]


def current_licence():
    cur = spdx_lists()[0]
    # identifiers ending in '+' are a separate class (GPL-2.0+ is deprecated anyway)
    cur = [c for c in cur if not c.endswith("+")]
    return st.one_of(st.sampled_from(COMMON_IDS), st.sampled_from(cur))


def exception_id():
    return st.sampled_from(spdx_lists()[2])


def licenseref():
    return st.builds(
        lambda a, b: "LicenseRef-" + a + b,
        # (with names that differ in letter case only: LicenseRef- identifiers are case-sensitive, these are different licences)
        st.sampled_from(["custom", "Custom", "Proprietary", "ACME", "acme", "x", "X", "my.own", "a-b", "V1.0", "v1.0", "9"]),
        st.sampled_from(["", "", "-1", ".2", "-final"]),
    )


@st.composite
def simple_expr(draw, ids=None):
    """id | id+ | id WITH exc"""
    ident = draw(ids if ids is not None else st.one_of(current_licence(), licenseref()))
    k = draw(st.integers(0, 9))
    if k == 0 and not ident.startswith("LicenseRef-"):
        return ident + "+"
    if k == 1:
        return f"{ident} WITH {draw(exception_id())}"
    return ident


@st.composite
def expression(draw, depth=2, ids=None):
    if depth <= 0 or draw(st.integers(0, 2)) == 0:
        return draw(simple_expr(ids))
    op = draw(st.sampled_from([" AND ", " OR "]))
    n = draw(st.integers(2, 3))
    parts = []
    for _ in range(n):
        sub = draw(expression(depth - 1, ids))
        if (" AND " in sub or " OR " in sub) and draw(st.booleans()) or ((" AND " in sub or " OR " in sub) and op.strip() not in sub):
            sub = f"({sub})"
        parts.append(sub)
    return op.join(parts)


# clear-cut syntax errors only ("MIT ISC" is accepted by the expression library as one symbol;
# "()" makes the third-party parser raise IndexError, which is C16's subject)
INVALID_EXPRESSIONS = ["MIT AND", "OR MIT", "MIT AND OR ISC", "(MIT", "MIT)", "MIT WITH", "AND", "MIT OR (", "MIT,ISC", "MIT WITH WITH x"]

# ---- holders ---------------------------------------------------------------
_FIRST = ["Jane", "John", "Zoë", "Łukasz", "Ng", "María-José", "O'Brien", "李", "Müller", "J. R. R.", "Анна", "Sébastien", "Nguyễn Văn", "Jean  Luc"]
_LAST = ["Doe", "DOE", "Smith", "van der Berg", "Tolkien", "Ó Súilleabháin", "Иванова", "山田", "d'Arc", "Smith-Jones", "McDonald", "Roland", "Marc", "Team C#", "Yahoo!", "Vitamin c", "Klasse C", "Team dnl"]
_ORGS = ["Free Software Foundation Europe e.V.", "ACME, Inc.", "Acme, Inc.", "Foo & Bar GmbH", "Example Corp. (UK) Ltd", "The Project Authors", "Rivos Inc.", "Überwald AG", "株式会社テスト", "A-B C.D. s.r.o.", "contributors to X", "The Copyright Clearance Center", "Jane Doe, Copyright Officer", "A © B Holding"]
_SUFFIX = ["", "", "", " <jane@example.org>", " <https://example.org>", " <https://fsfe.org/a?b=c&d=e>", " and others", " (maintainer)", ", 2nd"]

_TRIGGER = re.compile(r"Copyright|©|SPDX-FileCopyrightText|SPDX-SnippetCopyrightText|SPDX-License-Identifier|SPDX-FileContributor|REUSE-Ignore|\([Cc]\)")
_TAG = re.compile(r"SPDX-FileCopyrightText|SPDX-SnippetCopyrightText|SPDX-License-Identifier|SPDX-FileContributor|REUSE-Ignore")
_EXTRA_TERMINATORS = ['">', "'>", '"/>', "'/>", "]::", "] ::"]


def holder_ok(h: str) -> bool:
    """The documented-ambiguity exclusions of DESIGN.md §3."""
    if not h or h != h.strip() or "\n" in h or "\r" in h or "\t" in h:
        return False
    # a tag anywhere, or a copyright marker at the very beginning (the statement would then be a notice already)
    if _TAG.search(h) or _TRIGGER.match(h):
        return False
    if re.match(r"\d{4}", h) or h[0] in "-,":
        return False
    tail = h.replace(" ", "")
    for t in ALL_TERMINATORS + _EXTRA_TERMINATORS:
        if tail.endswith(t.replace(" ", "")):
            return False
    return True


@st.composite
def holder(draw, markers=False):
    """*markers*: also names that contain a copyright marker word ('Jane Doe, Copyright Officer').  Only sound
    where the value is the holder of a copyright notice: any other line holding such a word is a notice to the tool."""
    orgs = _ORGS if markers else [o for o in _ORGS if not _TRIGGER.search(o)]
    kind = draw(st.integers(0, 3))
    if kind == 0:
        h = draw(st.sampled_from(orgs))
    elif kind == 1:
        h = f"{draw(st.sampled_from(_FIRST))} {draw(st.sampled_from(_LAST))}"
    elif kind == 2:
        h = draw(st.sampled_from(_LAST))
    else:
        h = f"{draw(st.sampled_from(_FIRST))} {draw(st.sampled_from(_LAST))}, {draw(st.sampled_from(orgs))}"
    h += draw(st.sampled_from(_SUFFIX))
    if not holder_ok(h):  # constructive pools make this unreachable; keep as a guard
        h = "Jane Doe"
    return h


def safe_holder(markers=False):
    """Holders without a tail that any comment syntax could take for
    decoration (no trailing punctuation such as '!' or '#')."""
    return holder(markers=markers).filter(lambda h: h[-1].isalnum() or h[-1] in ">)")


def year():
    y = st.integers(1970, 2030).map(str)
    return st.one_of(y, st.builds(lambda a, b: f"{min(a, b)}-{max(a, b)}", y, y), st.builds(lambda a, b: f"{min(a, b)} - {max(a, b)}", y, y))


def opt_year():
    return st.one_of(st.none(), year())


def notice(prefix_name: str, yr, hold: str) -> str:
    p = PREFIXES[prefix_name]
    return f"{p} {yr} {hold}" if yr else f"{p} {hold}"


_PREFIX_RX = "|".join(re.escape(p) for p in sorted(PREFIXES.values(), key=len, reverse=True)) + r"|SPDX-SnippetCopyrightText:"
_NOTICE = re.compile(
    r"^(?P<prefix>" + _PREFIX_RX + r")\s+(?:(?P<y1>\d{4})(?: ?- ?(?P<y2>\d{4}))?,?\s+)?(?P<holder>.*)$"
)


def parse_notice(line: str):
    """Independent reader of a notice: (prefix text, (lo, hi) or None, holder)."""
    m = _NOTICE.match(line)
    if not m:
        return None
    yrs = None
    if m["y1"]:
        yrs = (int(m["y1"]), int(m["y2"] or m["y1"]))
    return m["prefix"], yrs, m["holder"]
