"""Independent table of the comment syntaxes the tool documents (`--style`
names of `reuse annotate`), used by generators to *wrap* text.  Oracles never
use it to unwrap.  Kept as data, not imported from ``reuse.comment``, so that an
edit to the tool's table is observed rather than mirrored.

name -> (single_line_prefix or None, (start, middle, end) or None)
"""

STYLES = {
    "applescript": ("--", ("(*", "", "*)")),
    "aspx": (None, ("<%--", "", "--%>")),
    "bat": ("REM", None),
    "bibtex": (None, ("@Comment{", "", "}")),
    "c": (None, ("/*", " *", " */")),
    "cpp": ("//", ("/*", " *", " */")),
    "cppsingle": ("//", None),
    "f": ("c", None),
    "f90": ("!", None),
    "ftl": (None, ("<#--", "", "-->")),
    "handlebars": (None, ("{{!--", "", "--}}")),
    "haskell": ("--", None),
    "html": (None, ("<!--", "", "-->")),
    "jinja": (None, ("{#", "", "#}")),
    "julia": ("#", ("#=", "", "=#")),
    "lisp": (";;;", None),
    "m4": ("dnl", None),
    "man": ('.\\"', None),
    "ml": (None, ("(*", " *", " *)")),
    "plantuml": ("'", ("/'", " '", " '/")),
    "python": ("#", None),
    "rst": ("..", None),
    "semicolon": (";", None),
    "tex": ("%", None),
    "vim": ('"', None),
    "vst": (None, ("#*", "  ", "*#")),
    "xquery": (None, ("(:", " :", " :)")),
}

# a representative file extension per style name (documented mapping)
EXT_FOR_STYLE = {
    "applescript": ".applescript", "aspx": ".aspx", "bat": ".bat", "bibtex": ".bib", "c": ".c",
    "cpp": ".cpp", "cppsingle": ".zig", "f": ".f", "f90": ".f90", "ftl": ".ftl", "handlebars": ".hbs",
    "haskell": ".hs", "html": ".html", "jinja": ".jinja", "julia": ".jl", "lisp": ".lisp", "m4": ".m4",
    "man": ".man", "ml": ".ml", "plantuml": ".puml", "python": ".py", "rst": ".rst", "semicolon": ".ini",
    "tex": ".tex", "vim": ".vim", "vst": ".vm", "xquery": ".xq",
}

ALL_TERMINATORS = sorted({m[2].strip() for _s, m in STYLES.values() if m})


def has_single(name):
    return STYLES[name][0] is not None


def has_multi(name):
    return STYLES[name][1] is not None


def wrap_single(name, lines, indent="", trailing=""):
    pre = STYLES[name][0]
    return [f"{indent}{pre} {ln}{trailing}" if ln else f"{indent}{pre}" for ln in lines]


def wrap_inline(name, line, indent="", trailing=""):
    """START text END on one line."""
    start, _mid, end = STYLES[name][1]
    return f"{indent}{start} {line} {end.strip()}{trailing}"


def wrap_block(name, lines, indent="", trailing=""):
    start, mid, end = STYLES[name][1]
    out = [f"{indent}{start}"]
    for ln in lines:
        if mid:
            out.append(f"{indent}{mid} {ln}{trailing}" if ln else f"{indent}{mid}")
        else:
            out.append(f"{indent}{ln}{trailing}")
    out.append(f"{indent}{end}")
    return out
