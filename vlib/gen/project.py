"""Rendering helpers for generated projects: headers in a comment style,
REUSE.toml and dep5 writers, SPDX data access."""

import os

from . import styles as S
from . import values as V
from ..ref.inventory import SpdxData

_SPDX = None


def spdx_data() -> SpdxData:
    global _SPDX
    if _SPDX is None:
        _SPDX = SpdxData(*V.spdx_lists())
    return _SPDX


def header_text(style: str, cop_lines, lic_exprs, contributors=(), body="body\n", block=False, extra_invalid=None) -> str:
    """A file whose header holds the given notices / expressions in *style*."""
    lines = list(cop_lines)
    lines += [f"SPDX-FileContributor: {c}" for c in contributors]
    if cop_lines and lic_exprs:
        lines.append("")
    lines += [f"SPDX-License-Identifier: {e}" for e in lic_exprs]
    if extra_invalid:
        lines.append(f"SPDX-License-Identifier: {extra_invalid}")
    if not lines:
        return body
    if style == "none":
        out = lines
    elif block and S.has_multi(style) or not S.has_single(style):
        out = S.wrap_block(style, lines)
    else:
        out = S.wrap_single(style, lines)
    return "\n".join(out) + "\n\n" + body


def toml_quote(s: str) -> str:
    if "'" not in s and "\n" not in s:
        return "'" + s + "'"
    return '"' + s.replace("\\", "\\\\").replace('"', '\\"').replace("\n", "\\n") + '"'


def toml_value(v):
    if isinstance(v, (list, tuple)):
        if len(v) == 1:
            return toml_quote(v[0])
        return "[" + ", ".join(toml_quote(x) for x in v) + "]"
    return toml_quote(v)


def escape_glob(path: str) -> str:
    return path.replace("\\", "\\\\").replace("*", "\\*")


def reuse_toml(tables) -> str:
    """tables: list of {"paths": [...], "precedence": str|None, "cop": [...], "lic": [...]}"""
    out = ["version = 1", ""]
    for t in tables:
        out.append("[[annotations]]")
        out.append(f"path = {toml_value(t['paths'])}")
        if t.get("precedence"):
            out.append(f"precedence = {toml_quote(t['precedence'])}")
        if t.get("cop"):
            out.append(f"SPDX-FileCopyrightText = {toml_value(t['cop'])}")
        if t.get("lic"):
            out.append(f"SPDX-License-Identifier = {toml_value(t['lic'])}")
        out.append("")
    return "\n".join(out)


def dep5(paragraphs) -> str:
    """paragraphs: list of {"files": [...], "cop": [...], "lic": expr}"""
    out = ["Format: https://www.debian.org/doc/packaging-manuals/copyright-format/1.0/", "Upstream-Name: generated", "Upstream-Contact: nobody <n@example.org>", "Source: https://example.org", ""]
    for p in paragraphs:
        out.append("Files: " + " ".join(p["files"]))
        cop = p["cop"]
        out.append("Copyright: " + cop[0])
        for c in cop[1:]:
            out.append("  " + c)
        out.append("License: " + p["lic"])
        out.append("")
    return "\n".join(out)


def dep5_escape(path: str) -> str:
    return path.replace("\\", "\\\\").replace("*", "\\*").replace("?", "\\?")


def relativise(root, s: str) -> str:
    """Paths printed by the tool may be absolute or relative to cwd == root."""
    if os.path.isabs(s):
        return os.path.relpath(s, os.path.realpath(root)) if s.startswith(os.path.realpath(str(root))) else os.path.relpath(s, root)
    return os.path.normpath(s)
