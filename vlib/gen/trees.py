"""Generated directory trees for the coverage properties (C03, C15): names on
both sides of every exclusion rule, every node kind, optional Git layer."""

import os
import shutil
import subprocess
from pathlib import Path

from hypothesis import strategies as st

from .. import tree as T

# file names straddling the exclusion rules
RULE_NAMES = [
    "LICENSE", "LICENSE-MIT", "LICENSE.txt", "LICENSEX", "LICENCE", "LICENCE.md", "COPYING", "COPYING.md", "COPYINGX", "COPYING-LGPL",
    "license", "x.license", "a.py.license", "a.license.txt", "a.spdx", "a.spdx.json", "a.spdx.rdf", "a.spdx.yml", "a.spdx.yaml", "a.spdx.xml",
    "a.spdxx", "a.spdx_json", "a.spdx.txt", "a.spdx.jsonx", "spdx", "REUSE.toml", "REUSE.tomlx", "reuse.toml", ".hgtags", ".hgignore",
    ".gitkeep", ".gitattributes",
]
PLAIN_NAMES = ["a.py", "b.c", "main.rs", "README.md", "data.bin", "no ext", "with space.txt", "ünï.txt", "日本.md", "Makefile", "x.json",
               "#hash#", "~tilde", "a.b.c.d", "UPPER.TXT", "-dash.txt"[1:]]
CAL_SHL = ["CAL-1.0", "CAL-1.0.txt", "SHL-2.1.txt", "CAL-1.0-Combined-Work-Exception.txt"]
DIR_NAMES = ["src", "d", "e", "docs", "LICENSES", ".reuse", ".hg", ".sl", "subprojects", "sub", "LICENSE", "x.license", "build", "a.spdx"]


@st.composite
def tree_spec(draw, git=None, max_nodes=22):
    """nodes: relpath -> ("text", bytes) | ("empty",) | ("binary", bytes) |
    ("symlink", target) ; directories are implied."""
    use_git = draw(st.booleans()) if git is None else git
    n = draw(st.integers(3, max_nodes))
    nodes = {}
    dirs = [""]
    # a few directories, depth <= 3
    for _ in range(draw(st.integers(0, 6))):
        parent = draw(st.sampled_from(dirs))
        if parent.count("/") >= 2:
            continue
        name = draw(st.sampled_from(DIR_NAMES))
        if use_git and name in (".hg", ".sl") and False:
            continue
        d = f"{parent}/{name}" if parent else name
        if d not in dirs and d not in nodes:
            dirs.append(d)
            if name == "subprojects" and draw(st.booleans()):
                dirs.append(d + "/" + draw(st.sampled_from(["libfoo", "sub", "src"])))
    lic_stems = set()
    for _ in range(n):
        parent = draw(st.sampled_from(dirs))
        k = draw(st.integers(0, 19))
        if k < 9:
            name = draw(st.sampled_from(RULE_NAMES))
        elif k == 9:
            name = draw(st.sampled_from(CAL_SHL))
        else:
            name = draw(st.sampled_from(PLAIN_NAMES))
        path = f"{parent}/{name}" if parent else name
        if path in nodes or path in dirs or any(d == path or d.startswith(path + "/") for d in dirs):
            continue
        if path.split("/")[0] == "LICENSES":
            # licence texts need unique identifiers anywhere below LICENSES/
            # (two files resolving to one identifier abort the tool; outside C03)
            if name.endswith(".license"):
                pass
            else:
                stem = Path(name).stem if Path(name).suffix else name
                if stem in lic_stems or name in lic_stems:
                    continue
                lic_stems.add(stem)
                lic_stems.add(name)
        kind = draw(st.sampled_from(["text"] * 14 + ["empty", "empty", "binary", "binary", "symlink", "symlink", "symlink", "symlink", "socket"]))
        if kind == "socket" and (path.split("/")[0] == "LICENSES" or name.endswith(".license") or name == "REUSE.toml"):
            kind = "text"
        if kind == "symlink" and path.split("/")[0] == "LICENSES":
            # glob('LICENSES/**') follows symlinks: a link to a directory yields
            # the same licence text twice and aborts the tool (not C03's subject)
            kind = "text"
        if kind == "symlink" and name.endswith(".license"):
            # a symlinked .license sibling is followed by annotate (C15's subject) and
            # confuses the file <-> sibling mapping of this check
            kind = "text"
        if name == "REUSE.toml" and kind in ("text", "binary"):
            nodes[path] = ("text", b"version = 1\n")
        elif kind == "text":
            nodes[path] = ("text", draw(st.sampled_from([b"hello\n", b"x = 1\n", b"\n", b" ", b"# comment\ncode\n"])))
        elif kind == "empty":
            nodes[path] = ("empty",)
        elif kind == "binary":
            nodes[path] = ("binary", b"\x00\x01\x02\xff\xfebin\x00")
        elif kind == "socket":
            nodes[path] = ("socket",)  # not a regular file: never a covered file, whatever its name
        else:
            target = draw(st.sampled_from(["a.py", "src", ".", "nonexistent", "/etc/hostname", "../outside-sentinel/file", "d/a.py", "LICENSES"]))
            nodes[path] = ("symlink", target)
    if not any(v[0] in ("text", "binary") for v in nodes.values()):
        nodes["a.py"] = ("text", b"x\n")
    spec = {"nodes": nodes, "git": None}
    if use_git:
        files = sorted(p for p, v in nodes.items())
        alldirs = sorted(d for d in dirs if d)
        ignore = {}
        for gdir in draw(st.lists(st.sampled_from([""] + alldirs), max_size=2, unique=True)):
            if gdir.split("/")[0] in ("LICENSES",) and False:
                continue
            pats = []
            for _ in range(draw(st.integers(1, 4))):
                kind = draw(st.integers(0, 7))
                f = draw(st.sampled_from(files))
                base = f.rsplit("/", 1)[-1]
                if kind == 0:
                    pats.append(base)
                elif kind == 1:
                    pats.append("/" + f)
                elif kind == 2 and alldirs:
                    pats.append(draw(st.sampled_from(alldirs)).rsplit("/", 1)[-1] + "/")
                elif kind == 3:
                    ext = os.path.splitext(base)[1]
                    pats.append("*" + ext if ext else base)
                elif kind == 4:
                    pats.append("!" + base)
                elif kind == 5:
                    pats.append("**/" + base)
                elif kind == 6 and alldirs:
                    pats.append("/" + draw(st.sampled_from(alldirs)))
                else:
                    pats.append(draw(st.sampled_from(["*.bin", "build", "*~", "d/*", "*.TXT", "a.*"])))
            pats = [p for p in pats if "#" not in p and not p.startswith("-")]
            if pats:
                ignore[gdir] = pats
        # a wholly ignored directory directly below subprojects/ (the usual rule for what Meson downloads)
        msub = sorted({"/".join(f.split("/")[:2]) for f in files if f.startswith("subprojects/") and f.count("/") >= 2})
        if msub and draw(st.integers(0, 2)) == 0:
            ignore.setdefault("", []).append("/" + draw(st.sampled_from(msub)) + "/")
        tracked = draw(st.lists(st.sampled_from(files), max_size=6, unique=True))
        forced = draw(st.lists(st.sampled_from(files), max_size=2, unique=True))
        submods = []
        cand = [d for d in alldirs if d.count("/") <= 1 and d.split("/")[0] not in ("LICENSES", ".reuse", ".hg", ".sl") and d != "subprojects"
                and not any(part in (".hg", ".sl", "LICENSES", ".reuse") for part in d.split("/"))
                and any(p.startswith(d + "/") and v[0] in ("text", "binary") for p, v in nodes.items())]
        meson = [d for d in cand if d.startswith("subprojects/")]
        meson = [d for d in meson if ("/" + d + "/") not in ignore.get("", [])]  # an ignored submodule is a contradictory set-up
        if meson and draw(st.booleans()):
            submods.append(draw(st.sampled_from(meson)))
        elif cand and draw(st.integers(0, 2)) == 0:
            submods.append(draw(st.sampled_from(cand)))
        # rules that live outside any .gitignore (.git/info/exclude)
        exclude = []
        if draw(st.integers(0, 2)) == 0:
            for _ in range(draw(st.integers(1, 2))):
                f = draw(st.sampled_from(files))
                exclude.append(draw(st.sampled_from([f.rsplit("/", 1)[-1], "/" + f, "*" + os.path.splitext(f)[1] if os.path.splitext(f)[1] else f.rsplit("/", 1)[-1]])))
            exclude = [p for p in exclude if "#" not in p and not p.startswith(("-", "!"))]
        spec["git"] = {"ignore": ignore, "tracked": tracked, "forced": forced, "submodules": submods, "exclude": exclude}
    return spec


def materialise(root: Path, spec, git_top: Path = None) -> None:
    """Write the tree below *root*.  With *git_top* (an ancestor of root) the
    Git repository is created there instead, so that the project root lies
    below the top of the work tree (monorepo layout)."""
    files = {}
    hard = []
    for p, v in spec["nodes"].items():
        if v[0] in ("text", "binary"):
            files[p] = v[1]
        elif v[0] == "empty":
            files[p] = b""
        elif v[0] == "socket":
            files[p] = ("socket",)
        elif v[0] == "hardlink":
            hard.append((p, v[1]))
        else:
            files[p] = ("symlink", v[1])
    g = spec.get("git")
    if g:
        for gdir, pats in g["ignore"].items():
            p = f"{gdir}/.gitignore" if gdir else ".gitignore"
            if p not in files:
                files[p] = ("\n".join(pats) + "\n").encode()
    T.write_tree(root, files)
    subs = (g or {}).get("submodules", []) if g else []
    for p, target in hard:
        (root / p).parent.mkdir(parents=True, exist_ok=True)
        if any(x == sm or x.startswith(sm + "/") for sm in subs for x in (p, target)) or not (root / target).is_file() or os.path.lexists(root / p):
            # (a submodule becomes a repository of its own: no link across that border)
            if not os.path.lexists(root / p):
                (root / p).write_bytes(spec["nodes"][target][1] if spec["nodes"].get(target, ("",))[0] == "text" else b"x\n")
        else:
            os.link(root / target, root / p)
    if g and git_top is not None:
        prefix = os.path.relpath(root, git_top) + "/"
        T.write_tree(git_top, {".gitignore": "*.bin\nbuild/\n/" + prefix + "UPPER.TXT\n", "top-level.py": "x\n"})
        T.git_init(git_top)
        if g.get("exclude"):
            with open(git_top / ".git/info/exclude", "a") as fp:
                fp.write("\n".join(g["exclude"]) + "\n")
        for p in g["tracked"]:
            T.git(git_top, "add", "--", prefix + p, check=False)
        for p in g["forced"]:
            T.git(git_top, "add", "-f", "--", prefix + p, check=False)
        return
    if g:
        T.git_init(root)
        if g.get("exclude"):
            with open(root / ".git/info/exclude", "a") as fp:
                fp.write("\n".join(g["exclude"]) + "\n")
        for sm in g["submodules"]:
            # "manual" submodule: nested repository + .gitmodules entry
            T.git(root / sm, "init", "-q", "-b", "main")
            T.git(root / sm, "add", "-A", check=False)
            T.git(root / sm, "commit", "-q", "-m", "sub", "--allow-empty", check=False)
        if g["submodules"]:
            with open(root / ".gitmodules", "w") as fp:
                for sm in g["submodules"]:
                    fp.write(f'[submodule "{sm}"]\n\tpath = {sm}\n\turl = ./{sm}\n')
        for p in g["tracked"]:
            if not any(p.startswith(sm + "/") for sm in g["submodules"]):
                T.git(root, "add", "--", p, check=False)
        for p in g["forced"]:
            if not any(p.startswith(sm + "/") for sm in g["submodules"]):
                T.git(root, "add", "-f", "--", p, check=False)


def all_paths(root: Path):
    """Every non-directory path below root as (relpath, kind, size,
    symlinked_ancestor) — an independent walk (os.scandir, no symlink
    following), .git internals of the root repository left out."""
    out = []

    def walk(d: Path, rel: str):
        for e in sorted(os.scandir(d), key=lambda e: e.name):
            r = f"{rel}/{e.name}" if rel else e.name
            if e.is_symlink():
                out.append((r, "symlink", 0))
            elif e.is_dir(follow_symlinks=False):
                if r == ".git":
                    continue
                walk(Path(e.path), r)
            elif not e.is_file(follow_symlinks=False):
                out.append((r, "special", 0))
            else:
                out.append((r, "file", e.stat(follow_symlinks=False).st_size))

    walk(root, "")
    return out


def git_ignored(root: Path, relpaths) -> set:
    """Git's own answer: which of *relpaths* are ignored (tracked files never)."""
    if not relpaths:
        return set()
    import subprocess

    inp = b"\0".join(p.encode() for p in relpaths) + b"\0"
    p = subprocess.run(["git", "check-ignore", "-z", "--stdin"], cwd=str(root), input=inp, capture_output=True, check=False)
    if p.returncode not in (0, 1):
        from ..core import HarnessError

        raise HarnessError(f"git check-ignore failed: {p.stderr.decode()[:300]}")
    return {x.decode() for x in p.stdout.split(b"\0") if x}


def copytree(src: Path, dst: Path) -> None:
    # (cp -a also re-creates sockets, which shutil.copytree cannot)
    p = subprocess.run(["cp", "-a", str(src), str(dst)], capture_output=True, check=False)
    if p.returncode:
        from ..core import HarnessError

        raise HarnessError(f"cp -a failed: {p.stderr.decode()[:300]}")
