"""Generated whole projects (C01, C13, C14, C18, C19): compliant by
construction, then 0..4 injected defects; plus a fully random population.
The *state* is a plain description; ``materialise`` writes it and ``model``
computes the expected lint report from the description alone (reference
models: attribution + inventory + covered)."""

from hypothesis import strategies as st

from . import project as P
from . import styles as S
from . import values as V
from .. import tree as T
from ..ref import attribution as A
from ..ref import inventory as INV

TEXT_STYLES = [s for s in S.STYLES]
NAMES = ["main", "util", "mod", "with space", "ünï", "data", "x-y_z", "README", "日本"]
# (one directory whose files have paths of more than 80 columns, with blanks and hyphens in them)
# (and one whose name is spelled with a combining accent, i.e. not in Unicode normal form C)
DIRS = ["", "", "src", "src/sub", "docs", "a b", "cafe\u0301-ordner/deep", "a long directory name - with blanks and hyphens/that goes on for more than eighty columns - really"]
DEFECTS = ["strip-cop", "strip-lic", "drop-licence-text", "unused-text", "junk-text", "unknown-id", "deprecated-text", "no-extension",
           "unreadable", "bad-expression", "wrong-case-id", "empty-licence-tag"]


@st.composite
def _info(draw, idpool, allow_empty=False, depth=1):
    cop = draw(st.lists(st.builds(V.notice, st.sampled_from(sorted(V.PREFIXES)), V.opt_year(), V.safe_holder()), min_size=0 if allow_empty else 1, max_size=2, unique=True))
    lic = draw(st.lists(V.expression(depth, st.sampled_from(idpool)), min_size=0 if allow_empty else 1, max_size=2, unique=True))
    return {"cop": cop, "lic": lic}


@st.composite
def project_state(draw, compliant_bias=True, max_files=7, git=None, expr_depth=1):
    def info(idpool, allow_empty=False):  # expression depth is fixed per project
        return _info(idpool, allow_empty, expr_depth)

    cur = V.spdx_lists()[0]
    idpool = draw(st.lists(st.one_of(st.sampled_from(V.COMMON_IDS), st.sampled_from(cur), V.licenseref()), min_size=2, max_size=6, unique=True))
    idpool = [i for i in idpool if not i.endswith("+")]
    if len(idpool) < 2:
        idpool = ["MIT", "ISC"]
    gkind = draw(st.sampled_from(["none", "none", "toml", "toml", "dep5"]))
    use_git = draw(st.booleans()) if git is None else git
    files = []
    seen = set()
    twin = None
    n = draw(st.integers(1, max_files))
    for i in range(n):
        style = draw(st.sampled_from(TEXT_STYLES))
        d = draw(st.sampled_from(DIRS))
        # mostly unique base names; sometimes the same base name in several directories
        name = draw(st.sampled_from(NAMES)) + (str(i) if draw(st.integers(0, 2)) else "") + S.EXT_FOR_STYLE[style]
        path = f"{d}/{name}" if d else name
        if gkind == "dep5":
            path = path.replace(" ", "_")  # dep5 'Files:' is white-space separated
        if path in seen:
            continue
        seen.add(path)
        kind = draw(st.sampled_from(["text"] * 5 + ["binary"]))
        if compliant_bias:
            opts = ["header", "header", "dotlicense"]
            if gkind == "toml":
                opts += ["override", "aggregate", "closest", "closest-partial"]
            if gkind == "dep5":
                opts += ["dep5", "dep5+header"]
            if kind == "binary":
                opts = [o for o in opts if o not in ("header", "dep5+header", "closest-partial")] or ["dotlicense"]
            pat = draw(st.sampled_from(opts))
            f = {"path": path, "kind": kind, "style": style, "own": None, "dotlic": None, "table": None, "para": None, "unreadable": None, "block": draw(st.booleans())}
            full = draw(info(idpool))
            if pat == "header":
                f["own"] = full
            elif pat == "dotlicense":
                f["dotlic"] = full
                if kind == "text" and draw(st.booleans()):
                    f["own"] = draw(info(idpool, True))  # shadowed by the sibling
            elif pat in ("override", "aggregate", "closest"):
                f["table"] = dict(full, prec=pat)
                if kind == "text" and draw(st.booleans()):
                    f["own"] = draw(info(idpool, True))
                    if pat == "aggregate" and draw(st.integers(0, 2)) == 0:
                        # the file says itself exactly what the table says (two sources, one expression)
                        f["own"] = dict(f["own"], lic=list(full["lic"][:1]))
                        f["table"] = dict(f["table"], lic=list(full["lic"][:1]))
            elif pat == "closest-partial":
                f["table"] = dict(full, prec="closest")
                part = draw(info(idpool))
                f["own"] = {"cop": part["cop"], "lic": []} if draw(st.booleans()) else {"cop": [], "lic": part["lic"]}
            elif pat == "dep5":
                f["para"] = {"cop": full["cop"], "lic": [" AND ".join(f"({x})" if " " in x else x for x in full["lic"])]}
            elif pat == "dep5+header":
                f["para"] = {"cop": full["cop"], "lic": [full["lic"][0]]}
                f["own"] = draw(info(idpool, True))
                if draw(st.integers(0, 2)) == 0:
                    f["own"] = dict(f["own"], lic=[full["lic"][0]])
        else:
            f = {"path": path, "kind": kind, "style": style, "own": None, "dotlic": None, "table": None, "para": None, "unreadable": None, "block": draw(st.booleans())}
            if kind == "text" and draw(st.booleans()):
                f["own"] = draw(info(idpool, True))
            if draw(st.integers(0, 3)) == 0:
                f["dotlic"] = draw(info(idpool, True))
            if gkind == "toml" and draw(st.booleans()):
                f["table"] = dict(draw(info(idpool, True)), prec=draw(st.sampled_from(["closest", "aggregate", "override"])))
                if f["own"] and f["own"]["lic"] and draw(st.integers(0, 2)) == 0:
                    # the table repeats what the file says itself (two sources, one expression)
                    f["table"]["lic"] = list(f["own"]["lic"])
            if gkind == "dep5" and draw(st.booleans()):
                i2 = draw(info(idpool))
                f["para"] = {"cop": i2["cop"], "lic": [i2["lic"][0]]}
                if f["own"] and len(f["own"]["lic"]) == 1 and draw(st.integers(0, 2)) == 0:
                    f["para"]["lic"] = list(f["own"]["lic"])
        files.append(f)
    if len(files) >= 2 and draw(st.integers(0, 2)) == 0:
        # a file without any information of its own whose base name equals that of a file in another directory (which holds further files)
        f0 = draw(st.sampled_from(files))
        d0 = f0["path"].rsplit("/", 1)[0] if "/" in f0["path"] else ""
        others = sorted({(g["path"].rsplit("/", 1)[0] if "/" in g["path"] else "") for g in files} - {d0})
        if others:
            d2 = draw(st.sampled_from(others))
            p2 = (d2 + "/" if d2 else "") + f0["path"].rsplit("/", 1)[-1]
            if p2 not in seen:
                seen.add(p2)
                files.append({"path": p2, "kind": "text", "style": f0["style"], "own": None, "dotlic": None, "table": None, "para": None, "unreadable": None, "block": False})
                twin = (f0["path"], p2)
    case_twin = False
    if files and gkind != "dep5" and draw(st.integers(0, 3)) == 0:
        # two covered files whose paths differ in letter case only (Makefile / makefile)
        f0 = draw(st.sampled_from(files))
        d0, b0 = (f0["path"].rsplit("/", 1) + [""])[:2] if "/" in f0["path"] else ("", f0["path"])
        p2 = (d0 + "/" if d0 else "") + b0.swapcase()
        if p2 not in seen and p2.lower() == f0["path"].lower() and p2 != f0["path"] and not p2.lower().endswith((".license", ".spdx")):
            seen.add(p2)
            files.append({"path": p2, "kind": "text", "style": f0["style"], "own": None, "dotlic": None, "table": None, "para": None, "unreadable": None, "block": False})
            case_twin = True
    prefix_sibling = False
    if gkind == "dep5" and draw(st.integers(0, 2)) == 0:
        # a file without information whose path merely STARTS WITH a path that a dep5 paragraph names literally (README / README.md)
        cands = [f for f in files if f["para"]]
        if cands:
            f0 = draw(st.sampled_from(cands))
            p2 = f0["path"] + draw(st.sampled_from([".orig", "~", ".md", "-old"]))
            if p2 not in seen:
                seen.add(p2)
                files.append({"path": p2, "kind": "text", "style": f0["style"], "own": None, "dotlic": None, "table": None, "para": None, "unreadable": None, "block": False})
                prefix_sibling = True
    if use_git:
        # .gitignore is a covered file like any other
        files.append({"path": ".gitignore", "kind": "text", "style": "python", "own": {"cop": ["SPDX-FileCopyrightText: 2020 Ignorer"], "lic": ["CC0-1.0"]},
                      "dotlic": None, "table": None, "para": None, "unreadable": None, "block": False, "body": "*.log\n"})
    fallback = None
    if gkind == "toml" and draw(st.integers(0, 2)) == 0:
        fallback = dict(draw(info(idpool, not compliant_bias)), prec=draw(st.sampled_from(["closest", "aggregate"])))
    state = {"files": files, "gkind": gkind, "fallback": fallback, "git": use_git, "noise": {}, "licenses": [], "defects": (["same-base-name-elsewhere"] if twin else []) + (["path-extends-a-dep5-entry"] if prefix_sibling else []) + (["path-differs-in-case-only"] if case_twin else []), "extra_used": [], "twin": twin}
    # noise that must not be reported
    for nm in draw(st.lists(st.sampled_from(["LICENSE", "COPYING.md", "docs/LICENSE-MIT", "empty.py", "link.py", "sbom.spdx", "src/x.spdx.json", "ignored.log", "dangling.py", "linkdir"]), max_size=4, unique=True)):
        if nm == "ignored.log" and not use_git:
            continue
        state["noise"][nm] = nm
    # LICENSES: exactly what is used
    used = used_identifiers(state)
    state["licenses"] = sorted({INV.strip_plus(i) + ".txt" for i in used})
    if not compliant_bias:
        lic = draw(st.lists(st.sampled_from(idpool + ["GPL-2.0", "Zlib", "junk", "LicenseRef-other"]), max_size=4, unique=True))
        state["licenses"] = sorted({x + draw(st.sampled_from([".txt", ".txt", ".md", ""])) for x in lic})
        # one provider per identifier
        seenid = set()
        keep = []
        for rel in state["licenses"]:
            ident = INV.provided_identifier(rel, P.spdx_data())[0]
            if ident not in seenid:
                seenid.add(ident)
                keep.append(rel)
        state["licenses"] = keep
    ndef = draw(st.sampled_from([0, 0, 1, 1, 2, 3, 4])) if compliant_bias else 0
    for _ in range(ndef):
        apply_defect(draw, state, draw(st.sampled_from(DEFECTS)), idpool)
    return state


def _sources(f):
    return [x for x in (f["own"], f["dotlic"], f["table"], f["para"]) if x]


def apply_defect(draw, state, kind, idpool):
    files = state["files"]
    f = draw(st.sampled_from(files))
    provided_ids = {INV.provided_identifier(r, P.spdx_data())[0] for r in state["licenses"]}
    if kind == "strip-cop":
        for s in _sources(f):
            if s is not f["para"]:  # a dep5 paragraph cannot lack its Copyright field
                s["cop"] = []
    elif kind == "strip-lic":
        for s in _sources(f):
            if s is not f["para"]:
                s["lic"] = []
    elif kind == "drop-licence-text":
        if state["licenses"]:
            state["licenses"].remove(draw(st.sampled_from(state["licenses"])))
    elif kind == "unused-text":
        cand = [x for x in ["Zlib", "X11", "curl", "LicenseRef-unused", "BSL-1.0"] if x not in provided_ids]
        if cand:
            state["licenses"].append(draw(st.sampled_from(cand)) + ".txt")
    elif kind == "junk-text":
        cand = [x for x in ["junk", "README", "mit-license", "GPL"] if x not in provided_ids]
        if cand:
            state["licenses"].append(draw(st.sampled_from(cand)) + draw(st.sampled_from([".txt", ".md"])))
    elif kind in ("unknown-id", "wrong-case-id"):
        bad = draw(st.sampled_from(["NotALicense", "foo-1.0", "GPL-9.9"])) if kind == "unknown-id" else draw(st.sampled_from(["mit", "apache-2.0", "isc"]))
        target = f["own"] if (f["own"] and f["kind"] == "text" and not f["dotlic"]) else (f["dotlic"] or f["table"] or f["para"])
        if target is not None:
            if target is f["para"]:
                target["lic"] = [target["lic"][0] + " AND " + bad] if target["lic"] else [bad]
            else:
                target["lic"] = list(target["lic"]) + [bad]
    elif kind == "deprecated-text":
        dep = [x for x in ["GPL-2.0", "GPL-3.0+", "LGPL-2.1", "AGPL-3.0", "BSD-2-Clause-NetBSD"] if x not in provided_ids]
        if dep:
            ident = draw(st.sampled_from(dep))
            state["licenses"].append(ident + ".txt")
            if draw(st.booleans()):
                # used as well, so it is deprecated but not unused
                target = f["own"] if (f["own"] and f["kind"] == "text" and not f["dotlic"]) else (f["dotlic"] or f["table"])
                if target is not None:
                    target["lic"] = list(target["lic"]) + [ident]
    elif kind == "no-extension":
        cands = [r for r in state["licenses"] if r.endswith(".txt") and r[:-4] in P.spdx_data().known]
        if cands:
            r = draw(st.sampled_from(cands))
            state["licenses"].remove(r)
            state["licenses"].append(r[:-4])
    elif kind == "unreadable":
        if not f["dotlic"]:
            f["unreadable"] = "dir-license"
    elif kind == "bad-expression":
        target = f["own"] if (f["own"] and f["kind"] == "text") else f["dotlic"]
        if target is not None:
            target["bad"] = draw(st.sampled_from(V.INVALID_EXPRESSIONS))
    elif kind == "empty-licence-tag":
        # the licence tag is there but its value is empty: the file declares no licence (its copyright stays)
        target = f["own"] if (f["own"] and f["kind"] == "text" and not f["dotlic"]) else f["dotlic"]
        if target is not None and not target.get("bad"):
            target["lic"] = []
            target["empty_tag"] = True
    state["defects"].append(kind)


def effective(state, f):
    """(own_info_or_None, chain) for the attribution model."""
    path = f["path"]
    own = None
    if f["unreadable"]:
        pass
    elif f["dotlic"] is not None:
        d = f["dotlic"]
        if not d.get("bad") and (d["cop"] or d["lic"]):
            own = {"cop": d["cop"], "lic": d["lic"], "source": path + ".license", "stype": "dot-license"}
    elif f["kind"] == "text" and f["own"] is not None:
        o = f["own"]
        if not o.get("bad") and (o["cop"] or o["lic"]):
            own = {"cop": o["cop"], "lic": o["lic"], "source": path, "stype": "file-header"}
    chain = []
    if state["gkind"] == "toml":
        t = f["table"] or state["fallback"]
        if t:
            chain.append({"prec": t["prec"], "cop": t["cop"], "lic": t["lic"], "source": "REUSE.toml", "stype": "reuse-toml"})
    elif state["gkind"] == "dep5" and f["para"]:
        p = f["para"]
        chain.append({"prec": "aggregate", "cop": p["cop"], "lic": p["lic"], "source": ".reuse/dep5", "stype": "dep5"})
    return own, chain


def is_read_error(state, f):
    """An unreadable file is a read error unless an override table makes the
    tool not read it at all."""
    if not f["unreadable"]:
        return False
    _own, chain = effective(state, f)
    return not (chain and chain[0]["prec"] == "override")


def used_identifiers(state):
    used = {}
    for f in state["files"]:
        if is_read_error(state, f):
            continue
        own, chain = effective(state, f)
        items, _strict, _allowed = A.attribute(own, chain)
        for kind, value, _s, _t in items:
            if kind == "lic":
                for i in INV.identifiers(value):
                    used.setdefault(i, set()).add(f["path"])
    return used


def model(state):
    """Expected lint report, from the description alone."""
    exp = {"files": {}, "read_errors": set(), "missing_cop": set(), "missing_lic": set(), "weak": False}
    for f in state["files"]:
        if is_read_error(state, f):
            exp["read_errors"].add(f["path"])
            continue
        own, chain = effective(state, f)
        items, strict, _allowed = A.attribute(own, chain)
        if not strict:
            exp["weak"] = True
        exp["files"][f["path"]] = items
        if not any(k == "cop" for k, *_ in items):
            exp["missing_cop"].add(f["path"])
        if not any(k == "lic" for k, *_ in items):
            exp["missing_lic"].add(f["path"])
    used = used_identifiers(state)
    inv = INV.inventory(used, state["licenses"], P.spdx_data())
    exp["used"] = used
    exp["inv"] = inv
    bad = {}
    for k, v in inv["bad_used"].items():
        bad.setdefault(k, set()).update(v)
    for k, r in inv["bad_provided"].items():
        bad.setdefault(k, set()).add("LICENSES/" + r)
    exp["bad"] = bad
    exp["noext"] = {k: "LICENSES/" + r for k, r in inv["no_extension"].items()}
    exp["compliant"] = not (exp["read_errors"] or exp["missing_cop"] or exp["missing_lic"] or inv["missing"] or inv["unused"] or bad or inv["deprecated"] or exp["noext"])
    return exp


def materialise(root, state):
    files = {}
    tables = []
    paras = []
    if state["fallback"] and state["gkind"] == "toml":
        fb = state["fallback"]
        tables.append({"paths": ["**"], "precedence": fb["prec"], "cop": fb["cop"], "lic": fb["lic"]})
    for f in state["files"]:
        path = f["path"]
        if f["kind"] == "binary":
            files[path] = b"\x00\x01\x02\xff\xfe\x00binary\x00"
        else:
            o = f["own"] or {"cop": [], "lic": []}
            files[path] = P.header_text(f["style"], o["cop"], o["lic"], block=f["block"], extra_invalid=o.get("bad") or (" " if o.get("empty_tag") else None), body=f.get("body", "body\n"))
        if f["dotlic"] is not None:
            d = f["dotlic"]
            # an empty sibling is written as zero bytes or as one newline: both shadow the file
            files[path + ".license"] = P.header_text("none", d["cop"], d["lic"], body="", extra_invalid=d.get("bad") or (" " if d.get("empty_tag") else None)) or ("\n" if len(path) % 2 else "")
        if f["unreadable"] == "dir-license":
            files[path + ".license"] = ("dir",)
        if f["table"] and state["gkind"] == "toml":
            t = f["table"]
            tables.append({"paths": [P.escape_glob(path)], "precedence": t["prec"], "cop": t["cop"], "lic": t["lic"]})
        if f["para"] and state["gkind"] == "dep5":
            p = f["para"]
            paras.append({"files": [P.dep5_escape(path)], "cop": p["cop"], "lic": p["lic"][0]})
    if state["gkind"] == "toml":
        files["REUSE.toml"] = P.reuse_toml(tables)
    if state["gkind"] == "dep5":
        files[".reuse/dep5"] = P.dep5(paras)
    for rel in state["licenses"]:
        files["LICENSES/" + rel] = f"Licence text of {rel}\nsecond line\n"
    for nm in state["noise"]:
        if nm.startswith("empty"):
            files[nm] = b""
        elif nm == "dangling.py":
            files[nm] = ("symlink", "does/not/exist")
        elif nm == "linkdir":
            files[nm] = ("symlink", ".")
        elif nm.startswith("link"):
            files[nm] = ("symlink", state["files"][0]["path"])
        else:
            files[nm] = "no information here\n"
    T.write_tree(root, files)
    if state["git"]:
        T.git_init(root)
    return files
