"""Harness library for the property-based verification of fsfe/reuse-tool.

Nothing in here imports ``reuse`` at module import time except through
:func:`vlib.env.setup`, which pins the import to ``$VERIF_REPO/src``.
"""

from .core import (  # noqa: F401
    Ctx,
    HarnessError,
    Violation,
    canon,
    case_hash,
)
