"""Reference model of the licence inventory (C06, C01): set algebra over the
identifiers *used* by covered files and those *provided* by LICENSES/.

Independent of ``reuse`` except for the bundled SPDX JSON lists (domain data).
"""

import re

_LICENSEREF = re.compile(r"^LicenseRef-[a-zA-Z0-9.\-]+$")
_KEYWORDS = {"AND", "OR", "WITH"}


def identifiers(expression: str):
    """Identifiers of an SPDX expression, in order, duplicates kept."""
    toks = re.findall(r"[()]|[^\s()]+", expression)
    return [t for t in toks if t not in "()" and t.upper() not in _KEYWORDS]


def strip_plus(i: str) -> str:
    return i[:-1] if i.endswith("+") else i


class SpdxData:
    def __init__(self, current, deprecated, exceptions, deprecated_exceptions):
        self.deprecated = set(deprecated) | set(deprecated_exceptions)
        self.known = set(current) | set(deprecated) | set(exceptions) | set(deprecated_exceptions)


def provided_identifier(relname: str, spdx: SpdxData):
    """Identifier a file LICENSES/<relname> provides, per the property:
    'ID.ext' provides ID; a file whose whole name is an SPDX identifier
    provides it but lacks an extension.  Returns (identifier, no_extension).
    """
    name = relname.rsplit("/", 1)[-1]
    if name in spdx.known:
        return name, True
    if "." in name[1:]:
        stem = name[: name.rindex(".")]
        return stem, False
    return name, False


def is_licenseref(i: str) -> bool:
    return bool(_LICENSEREF.match(i))


def inventory(used: dict, provided_files: list, spdx: SpdxData):
    """*used*: identifier (as written, possibly with '+') -> set of files.
    *provided_files*: names relative to LICENSES/ (sub-directories allowed,
    '*.license' siblings not included).
    Returns dict with missing, unused, bad_used, bad_provided, deprecated,
    no_extension."""
    provided = {}
    noext = {}
    for rel in provided_files:
        ident, ne = provided_identifier(rel, spdx)
        provided[ident] = rel
        if ne:
            noext[ident] = rel
    missing = {}
    bad_used = {}
    for ident, files in used.items():
        cands = {ident, strip_plus(ident)}
        if not (cands & set(provided)):
            missing[ident] = set(files)
        if not (cands & spdx.known) and not any(is_licenseref(c) for c in cands):
            bad_used[ident] = set(files)
    unused = set()
    for ident in provided:
        forms = {ident, ident if ident.endswith("+") else ident + "+"}
        if not (forms & set(used)):
            unused.add(ident)
    bad_provided = {i: rel for i, rel in provided.items() if i not in spdx.known and not is_licenseref(i)}
    deprecated = {i for i in provided if i in spdx.deprecated}
    return {
        "missing": missing,
        "unused": unused,
        "bad_used": bad_used,
        "bad_provided": bad_provided,
        "deprecated": deprecated,
        "no_extension": noext,
        "provided": provided,
    }


def _selftest():
    assert identifiers("(MIT OR GPL-2.0+) AND Apache-2.0 WITH LLVM-exception") == ["MIT", "GPL-2.0+", "Apache-2.0", "LLVM-exception"]
    sp = SpdxData(["MIT", "Apache-2.0", "OLDAP-2.0", "OLDAP-2.0.1"], ["GPL-2.0", "GPL-2.0+"], ["LLVM-exception"], [])
    assert provided_identifier("MIT.txt", sp) == ("MIT", False)
    assert provided_identifier("Apache-2.0", sp) == ("Apache-2.0", True)
    assert provided_identifier("OLDAP-2.0.1", sp) == ("OLDAP-2.0.1", True)
    assert provided_identifier("sub/MIT.md", sp) == ("MIT", False)
    assert provided_identifier("LicenseRef-a.b.txt", sp) == ("LicenseRef-a.b", False)
    inv = inventory({"MIT+": {"a"}, "LicenseRef-x": {"a"}, "foo": {"b"}}, ["MIT.txt", "GPL-2.0.txt", "junk.txt", "Apache-2.0"], sp)
    assert inv["missing"] == {"LicenseRef-x": {"a"}, "foo": {"b"}}
    assert inv["unused"] == {"GPL-2.0", "junk", "Apache-2.0"}
    assert inv["bad_used"] == {"foo": {"b"}} and set(inv["bad_provided"]) == {"junk"}
    assert inv["deprecated"] == {"GPL-2.0"} and set(inv["no_extension"]) == {"Apache-2.0"}


_selftest()
