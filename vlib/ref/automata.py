"""Language inclusion between a glob's reference automata and the automaton of
the tool's compiled pattern (C05), so that the path quantifier is not bounded
by an enumerated length.

The *candidate* automaton is built from the regular expression the tool
compiled, provided it stays inside the fragment

    alternation of  ^( item* )$   with   item ::= literal | \\escaped | . * | [^/]* | (?:.*/)?

(`\\Z` is accepted for `$`).  The product of the candidate with a reference
automaton is searched breadth-first for the shortest string accepted by one
and rejected by the other.  Such a string is only a *witness*: the caller
judges it with the real ``matches()`` call.  Patterns outside the fragment are
reported as such and left to the enumerated / sampled paths.

Alphabet: every literal character occurring in either automaton, '/', and one
fresh character standing for "any other character".
"""

from . import globlang as G

ANY, NOSLASH = "ANY", "NOSLASH"
OTHER = "\x01"  # placeholder, replaced by a printable fresh letter in witnesses


class NFA:
    """States are ints; transitions: state -> list of (label, target); label is
    a literal char, ANY or NOSLASH; eps: state -> set of states."""

    def __init__(self):
        self.n = 0
        self.trans = {}
        self.eps = {}
        self.start = self.new()
        self.accept = set()

    def new(self):
        self.n += 1
        return self.n - 1

    def add(self, a, label, b):
        self.trans.setdefault(a, []).append((label, b))

    def add_eps(self, a, b):
        self.eps.setdefault(a, set()).add(b)

    def closure(self, states):
        stack = list(states)
        seen = set(states)
        while stack:
            s = stack.pop()
            for t in self.eps.get(s, ()):
                if t not in seen:
                    seen.add(t)
                    stack.append(t)
        return frozenset(seen)

    def step(self, states, ch):
        out = set()
        for s in states:
            for label, t in self.trans.get(s, ()):
                if label == ch or label == ANY or (label == NOSLASH and ch != "/"):
                    out.add(t)
        return self.closure(out)

    def literals(self):
        return {label for edges in self.trans.values() for label, _t in edges if label not in (ANY, NOSLASH)}


def _seq(nfa, cur, items):
    """Append items to the automaton starting at state *cur*; return end state.
    item: ("lit", c) | ("any*",) | ("noslash*",) | ("optdirs",)"""
    for it in items:
        if it[0] == "lit":
            nxt = nfa.new()
            nfa.add(cur, it[1], nxt)
            cur = nxt
        elif it[0] == "any*":
            nfa.add(cur, ANY, cur)
        elif it[0] == "noslash*":
            nfa.add(cur, NOSLASH, cur)
        elif it[0] == "optdirs":  # (.*/)?
            loop = nfa.new()
            nxt = nfa.new()
            nfa.add_eps(cur, loop)
            nfa.add(loop, ANY, loop)
            nfa.add(loop, "/", nxt)
            nfa.add_eps(cur, nxt)
            cur = nxt
        else:
            raise ValueError(it)
    return cur


def from_items(alternatives):
    nfa = NFA()
    for items in alternatives:
        s = nfa.new()
        nfa.add_eps(nfa.start, s)
        nfa.accept.add(_seq(nfa, s, items))
    return nfa


def reference_items(glob, wide):
    toks, spec = G.tokenize(glob)
    items = []
    i = 0
    while i < len(toks):
        kind, ch = toks[i]
        if kind == G.LIT:
            items.append(("lit", ch))
        elif kind == G.STAR:
            items.append(("noslash*",))
        else:
            if wide and i + 1 < len(toks) and toks[i + 1] == (G.LIT, "/") and (i == 0 or toks[i - 1] == (G.LIT, "/")):
                items.append(("optdirs",))
                i += 1
            else:
                items.append(("any*",))
        i += 1
    return items, spec


class OutsideFragment(Exception):
    pass


def parse_compiled(pattern: str):
    """Items per alternative of the tool's compiled pattern."""
    alts = []
    i, n = 0, len(pattern)
    while i < n:
        if pattern.startswith("^(", i):
            i += 2
        else:
            raise OutsideFragment(pattern[i:i + 10])
        items = []
        while True:
            if i >= n:
                raise OutsideFragment("unterminated group")
            if pattern.startswith(")$", i):
                i += 2
                break
            if pattern.startswith(")\\Z", i):
                i += 3
                break
            if pattern.startswith("(?:.*/)?", i):
                items.append(("optdirs",))
                i += 8
            elif pattern.startswith("[^/]*", i):
                items.append(("noslash*",))
                i += 5
            elif pattern.startswith(".*", i):
                items.append(("any*",))
                i += 2
            elif pattern[i] == "\\":
                if i + 1 >= n or pattern[i + 1].isalnum():
                    raise OutsideFragment(pattern[i:i + 2])
                items.append(("lit", pattern[i + 1]))
                i += 2
            elif pattern[i] in ".^$*+?{}[]|()":
                raise OutsideFragment(pattern[i])
            else:
                items.append(("lit", pattern[i]))
                i += 1
        alts.append(items)
        if i < n:
            if pattern[i] == "|":
                i += 1
            else:
                raise OutsideFragment(pattern[i:])
    return alts


def difference_witness(a: NFA, b: NFA, alphabet, limit=20000):
    """Shortest string accepted by *a* and not by *b*, or None."""
    start = (a.closure({a.start}), b.closure({b.start}))
    seen = {start}
    queue = [(start, "")]
    qi = 0
    while qi < len(queue) and len(seen) < limit:
        (sa, sb), w = queue[qi]
        qi += 1
        if sa & a.accept and not (sb & b.accept):
            return w
        for ch in alphabet:
            na = a.step(sa, ch)
            if not na:
                continue
            nb = b.step(sb, ch)
            key = (na, nb)
            if key not in seen:
                seen.add(key)
                queue.append((key, w + ch))
    return None


def witnesses(globs, compiled_pattern):
    """Yield (string, kind) with kind in {"missed", "extra"}: candidate strings
    on which the compiled pattern seems to leave the sandwich."""
    cand = from_items(parse_compiled(compiled_pattern))
    narrow = from_items([reference_items(g, False)[0] for g in globs])
    wide = from_items([reference_items(g, True)[0] for g in globs])
    lits = cand.literals() | narrow.literals() | wide.literals() | {"/"}
    fresh = next(c for c in "qzwxyjkv" if c not in lits)
    alphabet = sorted(lits) + [fresh]
    w = difference_witness(narrow, cand, alphabet)
    if w is not None:
        yield w, "missed"
    w = difference_witness(cand, wide, alphabet)
    if w is not None:
        yield w, "extra"


def _selftest():
    assert list(witnesses(["a*b"], "^(a[^/]*b)$")) == []
    assert list(witnesses(["**/a"], "^((?:.*/)?a)\\Z")) == []
    ws = dict((k, w) for w, k in witnesses(["**/a"], "^(.*a)$"))
    assert ws["extra"] in ("qa", "/a"[0:0] + "qa") or ws["extra"].endswith("a")
    ws = dict((k, w) for w, k in witnesses(["*\\a"], "^(a)$"))
    assert "missed" in ws and ws["missed"].endswith("a") and len(ws["missed"]) == 2
    ws = dict((k, w) for w, k in witnesses(["\\*.py"], "^(\\*[^/]*\\.py)$"))
    assert ws.get("extra") is not None
    try:
        parse_compiled("^(a+)$")
        raise AssertionError
    except OutsideFragment:
        pass


_selftest()
