"""Reference model of per-file attribution (C04), written from the property
statement.  Independent of ``reuse``.

Inputs are descriptions, outputs are sets of (kind, value, source, source_type)
with kind in {"cop", "lic"}.
"""

OVERRIDE, AGGREGATE, CLOSEST = "override", "aggregate", "closest"


def _items(info):
    out = set()
    for v in info.get("cop", ()):
        out.add(("cop", v, info["source"], info["stype"]))
    for v in info.get("lic", ()):
        out.add(("lic", v, info["source"], info["stype"]))
    return out


def attribute(own, chain):
    """*own*: None, or {"cop": [...], "lic": [...], "source": path, "stype": ...}
    — the file's effective own information (its .license sibling if one
    exists, else its readable, parseable text content).
    *chain*: top-down list (root first) with, per REUSE.toml on the path to
    the file, None (no matching table) or the LAST matching table as
    {"prec", "cop", "lic", "source", "stype": "reuse-toml"}.
    dep5 is a one-element chain with prec "aggregate" and stype "dep5".

    Returns (expected_items, strict, allowed_items).  When *strict* is False the
    statement does not fix the result completely: every reported item must be in
    *allowed_items* and *expected_items* must be present.
    """
    visited = []
    override = None
    for lvl in chain:
        if lvl is None:
            continue
        if lvl["prec"] == OVERRIDE:
            override = lvl
            break
        visited.append(lvl)
    if override is not None:
        exp = _items(override)
        has_info = bool(exp)
        # an `aggregate` table of an outer REUSE.toml still adds its information (the override hides DEEPER files and
        # the file's own content, REUSE.toml stays the only kind of source)
        others = []
        for lvl in visited:
            if lvl["prec"] == AGGREGATE:
                exp |= _items(lvl)
            else:
                others.append(lvl)
        if not others and has_info:
            return exp, True, exp
        # closest tables above an override, or an override without
        # information: not determined by the statement
        allowed = set(exp)
        for lvl in others:
            allowed |= _items(lvl)
        return exp, False, allowed
    exp = set()
    for lvl in visited:
        if lvl["prec"] == AGGREGATE:
            exp |= _items(lvl)
    own_cop = bool(own and own.get("cop"))
    own_lic = bool(own and own.get("lic"))
    if own:
        exp |= _items(own)
    closest = [lvl for lvl in visited if lvl["prec"] == CLOSEST]
    if not own_cop:
        for lvl in reversed(closest):  # nearest to the file first
            if lvl.get("cop"):
                exp |= {it for it in _items(lvl) if it[0] == "cop"}
                break
    if not own_lic:
        for lvl in reversed(closest):
            if lvl.get("lic"):
                exp |= {it for it in _items(lvl) if it[0] == "lic"}
                break
    return exp, True, exp


def _selftest():
    T = lambda prec, cop, lic, src: {"prec": prec, "cop": cop, "lic": lic, "source": src, "stype": "reuse-toml"}  # noqa: E731
    own = {"cop": ["c"], "lic": [], "source": "f", "stype": "file-header"}
    # closest supplies only what the file lacks, from the nearest table that has it
    e, s, _ = attribute(own, [T(CLOSEST, ["C0"], ["L0"], "REUSE.toml"), T(CLOSEST, [], ["L1"], "d/REUSE.toml")])
    assert s and e == {("cop", "c", "f", "file-header"), ("lic", "L1", "d/REUSE.toml", "reuse-toml")}
    e, s, _ = attribute(own, [T(CLOSEST, ["C0"], ["L0"], "REUSE.toml"), T(CLOSEST, ["C1"], [], "d/REUSE.toml")])
    assert e == {("cop", "c", "f", "file-header"), ("lic", "L0", "REUSE.toml", "reuse-toml")}
    # override: only source, hides deeper levels
    e, s, _ = attribute(own, [T(OVERRIDE, ["C0"], ["L0"], "REUSE.toml"), T(AGGREGATE, ["C1"], ["L1"], "d/REUSE.toml")])
    assert s and e == {("cop", "C0", "REUSE.toml", "reuse-toml"), ("lic", "L0", "REUSE.toml", "reuse-toml")}
    # aggregate adds
    e, s, _ = attribute(own, [T(AGGREGATE, ["C0"], ["L0"], "REUSE.toml")])
    assert e == {("cop", "c", "f", "file-header"), ("cop", "C0", "REUSE.toml", "reuse-toml"), ("lic", "L0", "REUSE.toml", "reuse-toml")}
    # no own info: closest gives both, nearest per attribute
    e, s, _ = attribute(None, [T(CLOSEST, ["C0"], ["L0"], "REUSE.toml"), T(CLOSEST, ["C1"], [], "d/REUSE.toml")])
    assert e == {("cop", "C1", "d/REUSE.toml", "reuse-toml"), ("lic", "L0", "REUSE.toml", "reuse-toml")}
    e, s, _ = attribute(own, [T(CLOSEST, ["C0"], [], "REUSE.toml"), T(OVERRIDE, [], ["L1"], "d/REUSE.toml")])
    assert not s
    # an outer aggregate table adds to a deeper override
    e, s, _ = attribute(own, [T(AGGREGATE, ["C0"], [], "REUSE.toml"), T(OVERRIDE, ["C1"], ["L1"], "d/REUSE.toml")])
    assert s and e == {("cop", "C0", "REUSE.toml", "reuse-toml"), ("cop", "C1", "d/REUSE.toml", "reuse-toml"), ("lic", "L1", "d/REUSE.toml", "reuse-toml")}


_selftest()
