"""Reference model of REUSE ignore blocks (C12): a left-to-right scanner.

Independent of ``reuse``: written from the property statement.  Text between a
start marker and the next end marker after it (or the end of the text) is
removed; a stray end marker stays; blocks do not nest.
"""

START = "REUSE-IgnoreStart"
END = "REUSE-IgnoreEnd"


def ref_filter(text: str) -> str:
    out = []
    pos = 0
    n = len(text)
    while pos < n:
        s = text.find(START, pos)
        if s < 0:
            out.append(text[pos:])
            break
        out.append(text[pos:s])
        e = text.find(END, s + len(START))
        if e < 0:
            break
        pos = e + len(END)
    return "".join(out)


def spans(tokens: list, start_tok, end_tok) -> list[bool]:
    """Token-level: hidden[i] is True when token i lies inside a block (the
    markers themselves included)."""
    hidden = [False] * len(tokens)
    inside = False
    for i, t in enumerate(tokens):
        if inside:
            hidden[i] = True
            if t == end_tok:
                inside = False
        elif t == start_tok:
            hidden[i] = True
            inside = True
    return hidden


def _selftest() -> None:
    assert ref_filter("a") == "a"
    assert ref_filter(f"{START}x{END}y") == "y"
    assert ref_filter(f"a{START}x") == "a"
    assert ref_filter(f"a{END}b{START}c{END}d") == f"a{END}bd"
    assert ref_filter(f"a{START}b{START}c{END}d{END}e") == f"ad{END}e"
    assert ref_filter(f"{START}{END}{START}{END}z") == "z"
    assert spans(["S", "x", "E", "y"], "S", "E") == [True, True, True, False]
    assert spans(["E", "S", "x"], "S", "E") == [False, True, True]


_selftest()
