"""Independent parsers for the output formats of `reuse lint` / `lint-file`
(C13).  Each returns the same neutral structure:

    {"bad": {(ident, path)}, "deprecated": {ident-or-path}, "noext": {...},
     "missing": {(ident, path)}, "unused": {...}, "read_errors": {path},
     "no_copyright": {path}, "no_licence": {path}}

Licences are named by identifier in --json/--plain and by LICENSES/ path in
--lines; the caller maps one to the other through the project description.
"""

import re

_FOUND_IN = re.compile(r"^'(.*)' found in:$")


def parse_plain(text: str):
    out = {"bad": set(), "deprecated": set(), "noext": set(), "missing": set(), "unused": set(), "read_errors": set(),
           "no_copyright": set(), "no_licence": set(), "summary": {}, "verdict": None}
    section = None
    current = None
    sub = None
    for line in text.splitlines():
        if line.startswith("# "):
            section = line[2:].strip()
            current = None
            sub = None
            continue
        if section in ("BAD LICENSES", "MISSING LICENSES"):
            m = _FOUND_IN.match(line)
            if m:
                current = m[1]
            elif line.startswith("* ") and current is not None:
                out["bad" if section.startswith("BAD") else "missing"].add((current, line[2:]))
        elif section == "DEPRECATED LICENSES":
            if line.startswith("* "):
                out["deprecated"].add(line[2:])
        elif section == "LICENSES WITHOUT FILE EXTENSION":
            if line.startswith("* "):
                out["noext"].add(line[2:])
        elif section == "UNUSED LICENSES":
            if line.startswith("* "):
                out["unused"].add(line[2:])
        elif section == "READ ERRORS":
            if line.startswith("* "):
                out["read_errors"].add(line[2:])
        elif section == "MISSING COPYRIGHT AND LICENSING INFORMATION":
            if line.startswith("The following files have no copyright and licensing"):
                sub = "both"
            elif line.startswith("The following files have no copyright information"):
                sub = "cop"
            elif line.startswith("The following files have no licensing information"):
                sub = "lic"
            elif line.startswith("* ") and sub:
                if sub in ("both", "cop"):
                    out["no_copyright"].add(line[2:])
                if sub in ("both", "lic"):
                    out["no_licence"].add(line[2:])
        elif section == "SUMMARY":
            if line.startswith("* ") and ":" in line:
                k, v = line[2:].split(":", 1)
                out["summary"][k.strip()] = v.strip()
            elif line.startswith("Congratulations"):
                out["verdict"] = True
            elif line.startswith("Unfortunately"):
                out["verdict"] = False
    return out


_LINE = re.compile(
    r"^(?P<path>.*): (?:(?P<bad>bad license) (?P<badlic>.*)|(?P<dep>deprecated license)|(?P<noext>license without file extension)"
    r"|(?P<unused>unused license)|(?P<missing>missing license) (?P<mlic>.*)|(?P<re>read error)|(?P<nolic>no license identifier)|(?P<nocop>no copyright notice))$"
)


def parse_lines(text: str):
    out = {"bad": set(), "deprecated": set(), "noext": set(), "missing": set(), "unused": set(), "read_errors": set(),
           "no_copyright": set(), "no_licence": set(), "unparsed": []}
    for line in text.splitlines():
        m = _LINE.match(line)
        if not m:
            if line.strip():
                out["unparsed"].append(line)
            continue
        p = m["path"]
        if m["bad"]:
            out["bad"].add((m["badlic"], p))
        elif m["dep"]:
            out["deprecated"].add(p)
        elif m["noext"]:
            out["noext"].add(p)
        elif m["unused"]:
            out["unused"].add(p)
        elif m["missing"]:
            out["missing"].add((m["mlic"], p))
        elif m["re"]:
            out["read_errors"].add(p)
        elif m["nolic"]:
            out["no_licence"].add(p)
        elif m["nocop"]:
            out["no_copyright"].add(p)
    return out


def from_json(data: dict):
    nc = data["non_compliant"]
    return {
        "bad": {(k, p) for k, v in nc["bad_licenses"].items() for p in v},
        "deprecated": set(nc["deprecated_licenses"]),
        "noext": set(nc["licenses_without_extension"]),
        "missing": {(k, p) for k, v in nc["missing_licenses"].items() for p in v},
        "unused": set(nc["unused_licenses"]),
        "read_errors": set(nc["read_errors"]),
        "no_copyright": set(nc["missing_copyright_info"]),
        "no_licence": set(nc["missing_licensing_info"]),
    }


def _selftest():
    plain = """# BAD LICENSES

'bad' found in:
* /p/a.py
* LICENSES/bad.txt


# MISSING LICENSES

'MIT' found in:
* /p/a.py


# MISSING COPYRIGHT AND LICENSING INFORMATION

The following files have no copyright and licensing information:
* /p/b.py

The following files have no licensing information:
* /p/c.py

# SUMMARY

* Bad licenses: bad
* Read errors: 0

Unfortunately, your project is not compliant with version 3.3 of the REUSE Specification :-(
"""
    r = parse_plain(plain)
    assert r["bad"] == {("bad", "/p/a.py"), ("bad", "LICENSES/bad.txt")} and r["missing"] == {("MIT", "/p/a.py")}
    assert r["no_copyright"] == {"/p/b.py"} and r["no_licence"] == {"/p/b.py", "/p/c.py"} and r["verdict"] is False
    r = parse_lines("/p/a.py: bad license bad\nLICENSES/x.txt: unused license\n/p/a b.py: missing license MIT\n/p/c: read error\n/p/d: no copyright notice\n")
    assert r["bad"] == {("bad", "/p/a.py")} and r["unused"] == {"LICENSES/x.txt"} and r["missing"] == {("MIT", "/p/a b.py")}
    assert r["read_errors"] == {"/p/c"} and r["no_copyright"] == {"/p/d"} and not r["unparsed"]


_selftest()
