"""Independent parser / evaluator for SPDX licence expressions (C18):
``id | id+ | id WITH exc | ( e ) | e AND e | e OR e``; AND binds tighter than
OR; a ``WITH`` pair is one atom.  Equivalence is decided by evaluating both
sides under every truth assignment of the atoms."""

import itertools
import re

_TOK = re.compile(r"\(|\)|[^\s()]+")


class ParseError(ValueError):
    pass


def parse(text: str):
    toks = _TOK.findall(text)
    pos = 0

    def peek():
        return toks[pos] if pos < len(toks) else None

    def eat():
        nonlocal pos
        t = peek()
        pos += 1
        return t

    def parse_or():
        node = parse_and()
        while peek() is not None and peek().upper() == "OR":
            eat()
            node = ("or", node, parse_and())
        return node

    def parse_and():
        node = parse_atom()
        while peek() is not None and peek().upper() == "AND":
            eat()
            node = ("and", node, parse_atom())
        return node

    def parse_atom():
        t = eat()
        if t is None:
            raise ParseError("unexpected end")
        if t == "(":
            node = parse_or()
            if eat() != ")":
                raise ParseError("expected )")
            return node
        if t == ")" or t.upper() in ("AND", "OR", "WITH"):
            raise ParseError(f"unexpected {t}")
        if peek() is not None and peek().upper() == "WITH":
            eat()
            exc = eat()
            if exc is None or exc in "()" or exc.upper() in ("AND", "OR", "WITH"):
                raise ParseError("expected exception after WITH")
            return ("atom", f"{t} WITH {exc}")
        return ("atom", t)

    node = parse_or()
    if pos != len(toks):
        raise ParseError(f"trailing tokens {toks[pos:]}")
    return node


def atoms(node, acc=None):
    acc = set() if acc is None else acc
    if node[0] == "atom":
        acc.add(node[1])
    else:
        atoms(node[1], acc)
        atoms(node[2], acc)
    return acc


def evaluate(node, env):
    if node[0] == "atom":
        return env[node[1]]
    if node[0] == "and":
        return evaluate(node[1], env) and evaluate(node[2], env)
    return evaluate(node[1], env) or evaluate(node[2], env)


def equivalent(a: str, b_list) -> bool:
    """Is *a* logically equivalent to the conjunction of *b_list*?"""
    na = parse(a)
    nbs = [parse(b) for b in b_list]
    names = sorted(atoms(na) | set().union(*[atoms(n) for n in nbs]))
    if len(names) > 16:
        raise ParseError("too many atoms for a truth table")
    for vals in itertools.product([False, True], repeat=len(names)):
        env = dict(zip(names, vals))
        if evaluate(na, env) != all(evaluate(n, env) for n in nbs):
            return False
    return True


def _selftest():
    assert equivalent("MIT AND ISC", ["MIT", "ISC"])
    assert equivalent("(A OR B) AND C", ["A OR B", "C"]) and not equivalent("A OR B AND C", ["A OR B", "C"])
    assert equivalent("A", ["A", "A OR B"])  # absorption
    assert equivalent("GPL-2.0+ WITH x AND MIT", ["MIT", "GPL-2.0+ WITH x"]) and not equivalent("GPL-2.0 WITH x", ["GPL-2.0+ WITH x"])
    assert not equivalent("(A AND B) OR (C AND D AND E)", ["(A AND B) OR (C AND D)", "E"])
    assert equivalent("(A AND B AND E) OR (C AND D AND E)", ["(A AND B) OR (C AND D)", "E"])
    try:
        parse("A AND")
        raise AssertionError
    except ParseError:
        pass


_selftest()
