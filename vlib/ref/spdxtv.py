"""Independent reader of SPDX tag-value documents (C18): ``Tag: value`` lines
and ``<text>...</text>`` spans that may run over several lines."""

import re

_TAG = re.compile(r"^([A-Za-z][A-Za-z0-9]*):[ ]?(.*)$", re.DOTALL)


class TagValueError(ValueError):
    pass


def parse(doc: str):
    """Return a list of (tag, value) in document order."""
    out = []
    lines = doc.split("\n")
    i = 0
    while i < len(lines):
        line = lines[i]
        if not line.strip():
            i += 1
            continue
        m = _TAG.match(line)
        if not m:
            raise TagValueError(f"line {i + 1} is not 'Tag: value': {line[:80]!r}")
        tag, value = m[1], m[2]
        if "<text>" in value:
            start = value.index("<text>")
            if value[:start].strip():
                raise TagValueError(f"line {i + 1}: text before <text>")
            buf = value[start + len("<text>"):]
            while "</text>" not in buf:
                i += 1
                if i >= len(lines):
                    raise TagValueError(f"unterminated <text> for {tag}")
                buf += "\n" + lines[i]
            end = buf.index("</text>")
            if buf[end + len("</text>"):].strip():
                raise TagValueError(f"text after </text> for {tag}")
            value = buf[:end]
        out.append((tag, value))
        i += 1
    return out


def sections(pairs):
    """Split into (document_pairs, files, licenses): a file section starts at
    FileName, an extracted-licence section at LicenseID."""
    doc, files, lics = [], [], []
    cur = doc
    for tag, value in pairs:
        if tag == "FileName":
            cur = []
            files.append(cur)
        elif tag == "LicenseID":
            cur = []
            lics.append(cur)
        cur.append((tag, value))
    return doc, files, lics


def _selftest():
    d = "SPDXVersion: SPDX-2.1\nCreatorComment: <text>a\nb</text>\nRelationship: X DESCRIBES Y\n\nFileName: ./a b.py\nSPDXID: SPDXRef-1\nFileCopyrightText: <text>c1\nc2</text>\n\nLicenseID: LicenseRef-x\nExtractedText: <text>t\n</text>\n"
    p = parse(d)
    assert p[1] == ("CreatorComment", "a\nb") and p[3] == ("FileName", "./a b.py") and p[5] == ("FileCopyrightText", "c1\nc2")
    doc, files, lics = sections(p)
    assert len(doc) == 3 and len(files) == 1 and len(lics) == 1 and lics[0][1] == ("ExtractedText", "t\n")


_selftest()
