"""Reference model of the REUSE.toml glob language (C05) and of the dep5
wildcard language (C17).  Independent of ``reuse``.

REUSE.toml: ``*`` = any run of non-'/' characters, ``**`` = any run of
characters, ``\\x`` = literal x, anything else literal.  Two readings:
*narrow* (exactly that) and *wide* (``**/`` that is a whole path component — at
the start of the glob or after a ``/`` — may also match zero directories;
established usage: ``**/*.py`` matches ``foo.py``; ``a**/b`` does not match ``ab``).  UNSPECIFIED: a trailing
lone backslash, runs of three or more asterisks.
"""

import re
from functools import lru_cache

LIT, STAR, GLOBSTAR = "lit", "star", "globstar"


def tokenize(glob: str):
    """Return (tokens, specified).  tokens: list of (kind, char)."""
    toks = []
    specified = True
    i, n = 0, len(glob)
    while i < n:
        c = glob[i]
        if c == "\\":
            if i + 1 < n:
                toks.append((LIT, glob[i + 1]))
                i += 2
            else:
                specified = False  # trailing lone backslash
                i += 1
        elif c == "*":
            j = i
            while j < n and glob[j] == "*":
                j += 1
            run = j - i
            if run == 1:
                toks.append((STAR, ""))
            elif run == 2:
                toks.append((GLOBSTAR, ""))
            else:
                specified = False
                toks.append((GLOBSTAR, ""))
            i = j
        else:
            toks.append((LIT, c))
            i += 1
    return toks, specified


def to_regex(toks, wide: bool) -> str:
    out = []
    i = 0
    while i < len(toks):
        kind, ch = toks[i]
        if kind == LIT:
            out.append(re.escape(ch))
        elif kind == STAR:
            out.append("[^/]*")
        else:
            if wide and i + 1 < len(toks) and toks[i + 1] == (LIT, "/") and (i == 0 or toks[i - 1] == (LIT, "/")):
                out.append("(?:.*/)?")
                i += 1
            else:
                out.append(".*")
        i += 1
    return "".join(out)


@lru_cache(maxsize=200000)
def compile_glob(glob: str):
    """(narrow_fullmatch, wide_fullmatch, specified)."""
    toks, spec = tokenize(glob)
    n = re.compile(to_regex(toks, False), re.DOTALL)
    w = re.compile(to_regex(toks, True), re.DOTALL)
    return n.fullmatch, w.fullmatch, spec


def match_tokens(toks, path: str, wide: bool) -> bool:
    """Slow, obviously-correct backtracking matcher (ground truth for the
    regex translation above)."""

    def rec(ti: int, pi: int) -> bool:
        if ti == len(toks):
            return pi == len(path)
        kind, ch = toks[ti]
        if kind == LIT:
            return pi < len(path) and path[pi] == ch and rec(ti + 1, pi + 1)
        if kind == STAR:
            k = pi
            while True:
                if rec(ti + 1, k):
                    return True
                if k < len(path) and path[k] != "/":
                    k += 1
                else:
                    return False
        # GLOBSTAR
        if wide and ti + 1 < len(toks) and toks[ti + 1] == (LIT, "/") and (ti == 0 or toks[ti - 1] == (LIT, "/")):
            if rec(ti + 2, pi):
                return True
        for k in range(pi, len(path) + 1):
            if rec(ti + 1, k):
                return True
        return False

    return rec(0, 0)


# ---- dep5 (Debian copyright format 1.0) wildcard language -----------------
# '*' matches any run of characters including '/', '?' any single character,
# '\\*' '\\?' '\\\\' literal; any other backslash sequence is an error.

def dep5_tokenize(pat: str):
    toks = []
    ok = True
    i, n = 0, len(pat)
    while i < n:
        c = pat[i]
        if c == "\\":
            if i + 1 < n and pat[i + 1] in "*?\\":
                toks.append((LIT, pat[i + 1]))
                i += 2
            else:
                ok = False
                i += 1
        elif c == "*":
            toks.append((GLOBSTAR, ""))
            i += 1
        elif c == "?":
            toks.append(("any", ""))
            i += 1
        else:
            toks.append((LIT, c))
            i += 1
    return toks, ok


def dep5_regex(pat: str):
    toks, ok = dep5_tokenize(pat)
    out = []
    for kind, ch in toks:
        if kind == LIT:
            out.append(re.escape(ch))
        elif kind == GLOBSTAR:
            out.append(".*")
        else:
            out.append(".")
    return re.compile("".join(out), re.DOTALL).fullmatch, ok


def _selftest() -> None:
    def m(g, p, wide=False):
        n, w, _ = compile_glob(g)
        r = (w if wide else n)(p) is not None
        assert r == match_tokens(tokenize(g)[0], p, wide), (g, p, wide)
        return r

    assert m("foo.py", "foo.py") and not m("foo.py", "src/foo.py")
    assert m("*", "foo.py") and not m("*", "src/foo.py")
    assert m("**", ".foo/bar")
    assert m("src/*.py", "src/foo.py") and not m("src/*.py", "src/o/foo.py")
    assert m(r"\*.py", "*.py") and not m(r"\*.py", "foo.py") and not m(r"\*.py", "*foo.py")
    assert m(r"\**.py", "*foo.py") and not m(r"\**.py", "*a/foo.py")
    assert m(r"\\*.py", "\\foo.py")
    assert m(r"\a", "a") and not m(r"\a", "\\a")
    assert m("foo*bar", "foo2bar") and not m("foo*bar", "foo/bar")
    assert not m("**/*.py", "foo.py") and m("**/*.py", "foo.py", wide=True)
    assert m("**/*.py", "src/foo.py") and m("**/*.py", "src/foo.py", wide=True)
    assert not m("**/a", "xa", wide=True) and m("**/a", "x/a", wide=True) and m("**/a", "a", wide=True)
    assert m("a/**/b", "a/b", wide=True) and not m("a/**/b", "a/b") and m("a/**/b", "a/x/y/b")
    assert not m("a**/b", "ab", wide=True) and m("a**/b", "a/b", wide=True) and m("a**/b", "ax/y/b")
    assert tokenize("a\\")[1] is False and tokenize("***")[1] is False
    f, ok = dep5_regex("a?.t*")
    assert ok and f("ab.txt") and f("a/.t/x") and not f("a.t")
    assert dep5_regex(r"a\*")[0]("a*") and not dep5_regex(r"a\*")[0]("ab")
    assert dep5_regex(r"a\b")[1] is False


_selftest()
