"""Reference model of "covered file" (C03), from the property statement.

A path is judged from a *description* (relative path, node kind, size) plus
the VCS oracle's answer; nothing is imported from ``reuse``.

Verdicts: COVERED, EXCLUDED, UNSPEC (the statement does not determine it; the
check makes no assertion and counts the case).
"""

import re

COVERED, EXCLUDED, UNSPEC = "covered", "excluded", "unspecified"

_LICENSE_NAME = re.compile(r"^(LICENSE|LICENCE|COPYING)([-.].*)?$")
_SPDX_DOC = re.compile(r"^.*\.spdx(\.(rdf|json|xml|ya?ml))?$")
VCS_DIRS = {".git", ".hg", ".sl"}
VCS_FILES = {".git", ".hgtags"}
# Names the tool is known to skip although the statement does not list them
# (recorded finding F13, see known_findings.txt)
_CAL_SHL = re.compile(r"^(CAL-1\.0(-Combined-Work-Exception)?|SHL-2\.1)(\..+)?$")


def name_rule(name: str):
    """Reason for exclusion by file name, or None."""
    if _LICENSE_NAME.match(name):
        return "license-name"
    if name.endswith(".license"):
        return "dot-license"
    if _SPDX_DOC.match(name):
        return "spdx-document"
    if name == "REUSE.toml":
        return "reuse-toml"
    if name in VCS_FILES:
        return "vcs-file"
    return None


def is_cal_shl(name: str) -> bool:
    return bool(_CAL_SHL.match(name))


def classify(relpath: str, kind: str, size: int, *, include_meson: bool = False,
             vcs_ignored: bool = False, in_submodule: bool = False, include_submodules: bool = False,
             symlinked_ancestor: bool = False):
    """*kind*: 'file', 'symlink' (to anything) or 'special' (socket, named pipe, device).  Returns (verdict, reason)."""
    parts = relpath.split("/")
    dirs, name = parts[:-1], parts[-1]
    if kind == "symlink":
        return EXCLUDED, "symlink"
    if kind == "special":
        return EXCLUDED, "not-a-regular-file"
    if symlinked_ancestor:
        return EXCLUDED, "below-symlinked-directory"
    for depth, d in enumerate(dirs):
        if d in VCS_DIRS:
            return EXCLUDED, "vcs-directory"
        if d in ("LICENSES", ".reuse"):
            # the statement excludes files "inside LICENSES/, .reuse/" without saying "of the root": at any depth
            return EXCLUDED, "licenses-or-reuse-directory" if depth == 0 else "nested-LICENSES-or-.reuse"
    for depth, d in enumerate(dirs):
        # a directory whose parent is called 'subprojects' is a Meson subproject
        if d == "subprojects" and depth + 1 < len(dirs):
            if depth == 0:
                if not include_meson:
                    return EXCLUDED, "meson-subproject"
            else:
                if not include_meson:
                    return UNSPEC, "nested-subprojects"
    if in_submodule and not include_submodules:
        return EXCLUDED, "submodule"
    reason = name_rule(name)
    if reason:
        return EXCLUDED, reason
    if size == 0:
        return EXCLUDED, "empty"
    if vcs_ignored:
        return EXCLUDED, "vcs-ignored"
    return COVERED, "covered"


def _selftest():
    c = lambda p, k="file", s=5, **kw: classify(p, k, s, **kw)[0]  # noqa: E731
    assert c("a.py") == COVERED
    assert c("LICENSE") == EXCLUDED and c("LICENSE-MIT") == EXCLUDED and c("LICENSE.txt") == EXCLUDED
    assert c("LICENSEX") == COVERED and c("LICENCE") == EXCLUDED and c("COPYING.md") == EXCLUDED and c("COPYINGX") == COVERED
    assert c("x.license") == EXCLUDED and c("a.spdx") == EXCLUDED and c("a.spdx.json") == EXCLUDED
    assert c("a.spdxx") == COVERED and c("a.spdx_json") == COVERED and c("a.spdx.yml") == EXCLUDED and c("a.spdx.txt") == COVERED
    assert c("REUSE.toml") == EXCLUDED and c("d/REUSE.toml") == EXCLUDED and c("REUSE.tomlx") == COVERED
    assert c("LICENSES/MIT.txt") == EXCLUDED and c(".reuse/dep5") == EXCLUDED and c("d/LICENSES/x") == EXCLUDED
    assert c(".git/config") == EXCLUDED and c("d/.hg/x") == EXCLUDED and c(".gitignore") == COVERED
    assert c("a", s=0) == EXCLUDED and c("a", k="symlink") == EXCLUDED
    assert c("subprojects/x/a.c") == EXCLUDED and c("subprojects/x/a.c", include_meson=True) == COVERED
    assert c("subprojects/a.wrap") == COVERED and c("d/subprojects/x/a.c") == UNSPEC
    assert c("m/a", in_submodule=True) == EXCLUDED and c("m/a", in_submodule=True, include_submodules=True) == COVERED
    assert c("a", vcs_ignored=True) == EXCLUDED
    assert is_cal_shl("CAL-1.0") and is_cal_shl("SHL-2.1.txt") and not is_cal_shl("CAL-1.0x")


_selftest()
