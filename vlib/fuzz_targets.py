"""Byte-level targets for the coverage-guided stage (atheris / libFuzzer).

Each target is a plain function ``bytes -> (nontrivial, message-or-None)`` with
the oracle inside, so that a saved input is replayed without the fuzzer.  The
driver (vlib/fuzz_driver.py) imports this module under atheris' import
instrumentation; the property modules import it plainly for replays.

What an "unhandled exception" is is taken from the callers: the command-line
layer maps GlobalLicensingParseError (and its subclasses) to a usage error,
extract's callers catch ExpressionError / ParseError, annotate catches
CommentCreateError / MissingReuseInfoError / TemplateError.  Anything else that
leaves the function leaves the command as a traceback.
"""

import os
import tempfile
from typing import Optional

_SCRATCH = None


def _scratch() -> str:
    global _SCRATCH
    if _SCRATCH is None or not os.path.isdir(_SCRATCH):
        base = "/dev/shm" if os.path.isdir("/dev/shm") and os.access("/dev/shm", os.W_OK) else None
        _SCRATCH = tempfile.mkdtemp(prefix=f"verif-fuzz-{os.getpid()}-", dir=base)
    return _SCRATCH


def cleanup() -> None:
    import shutil

    if _SCRATCH:
        shutil.rmtree(_SCRATCH, ignore_errors=True)


def _decode(data: bytes) -> Optional[str]:
    try:
        return data.decode("utf-8")
    except UnicodeDecodeError:
        return None


PATHS = ("src/a.py", "a", "x/y z.txt", "doc/é.md")


def t_toml(data: bytes):
    """REUSE.toml text -> ReuseTOML.from_toml; then ask it about a few paths."""
    from reuse.exceptions import GlobalLicensingParseError
    from reuse.global_licensing import ReuseTOML

    text = _decode(data)
    if text is None:
        return False, None
    try:
        obj = ReuseTOML.from_toml(text, "REUSE.toml")
    except GlobalLicensingParseError as e:
        # non-trivial when the document is TOML and got as far as the validators
        from tomlkit.exceptions import TOMLKitError

        return not isinstance(e.__cause__, TOMLKitError) and not isinstance(e.__context__, TOMLKitError), None
    except Exception as e:  # noqa: BLE001
        return True, f"ReuseTOML.from_toml raised {type(e).__name__}: {e}"
    for p in PATHS:
        try:
            obj.reuse_info_of(p)
            obj.find_annotations_item(p)
        except Exception as e:  # noqa: BLE001
            return True, f"accepted REUSE.toml, then reuse_info_of({p!r}) raised {type(e).__name__}: {e}"
    return True, None


def t_dep5(data: bytes):
    """.reuse/dep5 bytes -> ReuseDep5.from_file; reuse_info_of; toml_from_dep5 and the result loaded again."""
    from reuse.convert_dep5 import toml_from_dep5
    from reuse.exceptions import GlobalLicensingParseError
    from reuse.global_licensing import ReuseDep5, ReuseTOML

    path = os.path.join(_scratch(), "dep5")
    with open(path, "wb") as fp:
        fp.write(data)
    try:
        obj = ReuseDep5.from_file(path)
    except GlobalLicensingParseError:
        return False, None
    except Exception as e:  # noqa: BLE001
        return True, f"ReuseDep5.from_file raised {type(e).__name__}: {e}"
    nontrivial = False
    for p in PATHS:
        try:
            if obj.reuse_info_of(p):
                nontrivial = True
        except Exception as e:  # noqa: BLE001
            return True, f"accepted dep5, then reuse_info_of({p!r}) raised {type(e).__name__}: {e}"
    try:
        toml = toml_from_dep5(obj.dep5_copyright)
    except Exception as e:  # noqa: BLE001
        return True, f"accepted dep5, then toml_from_dep5 raised {type(e).__name__}: {e}"
    try:
        ReuseTOML.from_toml(toml, "REUSE.toml")
    except GlobalLicensingParseError:
        pass  # whether the conversion is faithful is C17's subject
    except Exception as e:  # noqa: BLE001
        return True, f"the REUSE.toml written by convert-dep5 makes the loader raise {type(e).__name__}: {e}"
    return nontrivial, None


def t_content(data: bytes):
    """File content -> the reader used by lint (through a real file) and the header functions used by annotate."""
    from boolean.boolean import ParseError
    from jinja2.exceptions import TemplateError
    from license_expression import ExpressionError
    from reuse import ReuseInfo
    from reuse.comment import NAME_STYLE_MAP
    from reuse.exceptions import CommentCreateError, CommentParseError, MissingReuseInfoError
    from reuse.extract import contains_reuse_info, extract_reuse_info, reuse_info_of_file
    from reuse.header import add_new_header, find_and_replace_header

    if not data:
        return False, None
    root = _scratch()
    path = os.path.join(root, "f.txt")
    with open(path, "wb") as fp:
        fp.write(data[1:])
    try:
        reuse_info_of_file(path, path, root)
    except Exception as e:  # noqa: BLE001
        return True, f"reuse_info_of_file raised {type(e).__name__}: {e}"
    text = _decode(data[1:])
    if text is None:
        return False, None
    nontrivial = False
    try:
        nontrivial = contains_reuse_info(text)
        extract_reuse_info(text)
    except (ExpressionError, ParseError):
        nontrivial = True
    except Exception as e:  # noqa: BLE001
        return True, f"extract_reuse_info raised {type(e).__name__}: {e}"
    names = sorted(NAME_STYLE_MAP)
    style = NAME_STYLE_MAP[names[data[0] % len(names)]]
    from reuse import _LICENSING

    info = ReuseInfo(spdx_expressions={_LICENSING.parse("MIT")}, copyright_lines={"SPDX-FileCopyrightText: 2020 Fuzz"})
    norm = text.replace("\r\n", "\n").replace("\r", "\n")
    for fn, kw in ((find_and_replace_header, {}), (find_and_replace_header, {"force_multi": True}), (add_new_header, {})):
        try:
            fn(norm, info, style=style, **kw)
        except (CommentCreateError, MissingReuseInfoError, TemplateError):
            pass
        except CommentParseError as e:
            return True, f"{fn.__name__} ({style.__name__}) let CommentParseError escape: {e}"
        except Exception as e:  # noqa: BLE001
            return True, f"{fn.__name__} ({style.__name__}) raised {type(e).__name__}: {e}"
    return nontrivial, None


def t_glob(data: bytes):
    """'glob NUL path' -> real AnnotationsItem.matches against the reference sandwich of C05."""
    from reuse.global_licensing import AnnotationsItem

    from .ref import globlang as G

    text = _decode(data)
    if text is None or "\x00" not in text:
        return False, None
    glob, path = text.split("\x00", 1)
    if not glob or "\x00" in path:
        return False, None
    nf, wf, spec = G.compile_glob(glob)
    if not spec:
        return False, None
    try:
        real = bool(AnnotationsItem(paths=[glob]).matches(path))
    except Exception as e:  # noqa: BLE001
        return True, f"AnnotationsItem(paths=[{glob!r}]).matches({path!r}) raised {type(e).__name__}: {e}"
    narrow, wide = nf(path) is not None, wf(path) is not None
    if narrow and not real:
        return True, f"path {path!r} is in the language of {glob!r} but matches() is False"
    if real and not wide:
        return True, f"path {path!r} is outside the language of {glob!r} but matches() is True"
    return ("*" in glob or "\\" in glob) and real, None


def t_ignore(data: bytes):
    """Arbitrary text -> extract(text) must equal extract(reference_filter(text)) (C12's oracle).  Texts on which
    filtering is not idempotent (removing a block splices a new marker together) are outside the oracle's reach."""
    from boolean.boolean import ParseError
    from license_expression import ExpressionError
    from reuse.extract import extract_reuse_info

    from .ref.ignoreblocks import END, START, ref_filter

    text = _decode(data)
    if text is None or START not in text:
        return False, None
    filtered = ref_filter(text)
    if ref_filter(filtered) != filtered:
        return False, None

    def ex(s):
        try:
            info = extract_reuse_info(s)
        except (ExpressionError, ParseError) as e:
            return ("error", type(e).__name__)
        return ("ok", sorted(str(x) for x in info.spdx_expressions), sorted(info.copyright_lines), sorted(info.contributor_lines))

    try:
        got, want = ex(text), ex(filtered)
    except Exception as e:  # noqa: BLE001
        return True, f"extract_reuse_info raised {type(e).__name__}: {e}"
    if got != want:
        return True, f"extract(text)={got!r} but extract(reference_filter(text))={want!r}"
    return (got != ("ok", [], [], []) or END in text) and ("SPDX-" in text or "opyright" in text), None


TARGETS = {"toml": t_toml, "dep5": t_dep5, "content": t_content, "glob": t_glob, "ignore": t_ignore}
