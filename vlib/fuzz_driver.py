"""atheris driver: ``fuzz_driver.py <target> <stats.json> <fail.json> [libFuzzer args...]``.

Runs one target of vlib/fuzz_targets.py in-process under coverage guidance.
Counters are flushed to <stats.json> every 500 iterations (atexit handlers do
not run under libFuzzer); the first oracle failure is written to <fail.json>
and the process leaves with status 77.  Exit status 3: atheris is not
installed.
"""

import base64
import hashlib
import json
import os
import sys
from pathlib import Path

VERIF_DIR = Path(__file__).resolve().parent.parent


def main() -> int:
    target_name, stats_path, fail_path = sys.argv[1:4]
    rest = sys.argv[4:]
    sys.path.insert(0, str(VERIF_DIR))
    deps = VERIF_DIR / ".deps"
    if deps.is_dir():
        sys.path.append(str(deps))
    try:
        import atheris
    except ImportError:
        return 3
    repo = Path(os.environ.get("VERIF_REPO", "/repo")).resolve()
    sys.path.insert(0, str(repo / "src"))
    os.environ["LC_ALL"] = "C"
    os.environ.pop("_SUPPRESS_DEP5_WARNING", None)
    import logging

    logging.lastResort = None
    logging.disable(logging.CRITICAL)
    with atheris.instrument_imports(include=["reuse", "tomlkit", "debian", "license_expression", "boolean", "vlib.ref"]):
        import reuse  # noqa: F401
        import reuse.comment  # noqa: F401
        import reuse.convert_dep5  # noqa: F401
        import reuse.extract  # noqa: F401
        import reuse.global_licensing  # noqa: F401
        import reuse.header  # noqa: F401

        import vlib.ref.globlang  # noqa: F401
        from vlib import fuzz_targets
    if repo / "src" not in Path(reuse.__file__).resolve().parents:
        print(f"HARNESS-ERROR: reuse imported from {reuse.__file__}", file=sys.stderr)
        return 2
    fn = fuzz_targets.TARGETS[target_name]
    state = {"n": 0, "nontrivial": set(), "samples": []}

    def flush():
        Path(stats_path).write_text(json.dumps({"runs": state["n"], "nontrivial": sorted(state["nontrivial"])[:20000], "nontrivial_total": len(state["nontrivial"]),
                                                "samples": state["samples"]}))

    def one(data: bytes):
        state["n"] += 1
        nontrivial, message = fn(data)
        if nontrivial:
            h = hashlib.sha1(data).hexdigest()[:16]
            if h not in state["nontrivial"]:
                state["nontrivial"].add(h)
                if len(state["samples"]) < 4:
                    state["samples"].append({"fuzz": target_name, "input": data[:200].decode("utf-8", "replace")})
        if message is not None:
            flush()
            Path(fail_path).write_text(json.dumps({"fuzz": target_name, "data": {"__b64__": base64.b64encode(data).decode()}, "message": message}))
            fuzz_targets.cleanup()
            os._exit(77)
        if state["n"] % 500 == 0:
            flush()

    atheris.Setup([sys.argv[0], *rest], one)
    try:
        atheris.Fuzz()
    finally:
        flush()
        fuzz_targets.cleanup()
    return 0


if __name__ == "__main__":
    sys.exit(main())
