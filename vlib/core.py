"""Core of the harness: per-shard context, counters, violations, Hypothesis
driver, replay files."""

import base64
import hashlib
import json
import os
import shutil
import tempfile
import time
from collections import Counter
from pathlib import Path
from typing import Any, Callable, Optional

VERIF_DIR = Path(__file__).resolve().parent.parent


class HarnessError(Exception):
    """The machinery itself is broken (exit status 2, never a violation)."""


class Violation(Exception):
    """The property does not hold on *case*."""

    def __init__(self, case: Any, message: str, signature: str = ""):
        super().__init__(message)
        self.case = case
        self.message = message
        self.signature = signature


def canon(obj: Any) -> Any:
    """JSON-able canonical form (bytes -> base64 dict, sets -> sorted lists)."""
    if isinstance(obj, bytes):
        return {"__b64__": base64.b64encode(obj).decode("ascii")}
    if isinstance(obj, (set, frozenset)):
        return sorted((canon(x) for x in obj), key=lambda x: json.dumps(x, sort_keys=True))
    if isinstance(obj, (list, tuple)):
        return [canon(x) for x in obj]
    if isinstance(obj, dict):
        return {str(k): canon(v) for k, v in obj.items()}
    if isinstance(obj, Path):
        return str(obj)
    if isinstance(obj, str):
        try:
            obj.encode("utf-8")
        except UnicodeEncodeError:
            # a string with lone surrogates (a command-line byte that is not valid UTF-8): keep it as bytes
            return {"__sesc__": base64.b64encode(obj.encode("utf-8", "surrogatepass")).decode("ascii")}
        return obj
    if isinstance(obj, (int, float, bool)) or obj is None:
        return obj
    return repr(obj)


def decanon(obj: Any) -> Any:
    if isinstance(obj, dict):
        if set(obj) == {"__b64__"}:
            return base64.b64decode(obj["__b64__"])
        if set(obj) == {"__sesc__"}:
            return base64.b64decode(obj["__sesc__"]).decode("utf-8", "surrogatepass")
        return {k: decanon(v) for k, v in obj.items()}
    if isinstance(obj, list):
        return [decanon(x) for x in obj]
    return obj


def case_hash(case: Any) -> str:
    return hashlib.sha1(
        json.dumps(canon(case), sort_keys=True, ensure_ascii=True).encode()
    ).hexdigest()[:16]


def derive_seed(seed: int, *parts: Any) -> int:
    h = hashlib.sha256(repr((seed,) + parts).encode()).digest()
    return int.from_bytes(h[:8], "big")


MAX_SAMPLES = 8


class Ctx:
    """Per-shard run context and measured counters."""

    def __init__(self, prop_id: str, tier: str, seed: int, shard: int, nshards: int):
        self.prop_id = prop_id
        self.tier = tier
        self.seed = seed
        self.shard = shard
        self.nshards = nshards
        self.evaluations = 0
        self.nontrivial: set[str] = set()
        self.classes: Counter = Counter()
        self.samples: list[Any] = []
        self.known_hits: Counter = Counter()
        self.known_examples: dict[str, Any] = {}
        self.excluded: Counter = Counter()
        self.extra: dict[str, Any] = {}
        self.violations: list[dict] = []
        self.t0 = time.time()
        base = "/dev/shm" if os.path.isdir("/dev/shm") and os.access("/dev/shm", os.W_OK) else None
        self.scratch = Path(
            tempfile.mkdtemp(prefix=f"verif-{prop_id}-{os.getpid()}-{shard}-", dir=base)
        )
        self._n = 0
        from .findings import accepted_signatures

        self.accepted = accepted_signatures(prop_id)

    # ---- scratch ---------------------------------------------------------
    def fresh_dir(self, name: str = "c") -> Path:
        self._n += 1
        d = self.scratch / f"{name}{self._n}"
        d.mkdir(parents=True)
        return d

    def cleanup(self) -> None:
        shutil.rmtree(self.scratch, ignore_errors=True)

    # ---- counters --------------------------------------------------------
    def count(self, case: Any = None, nontrivial: bool = False, labels=(), sample: Any = None) -> None:
        """Record one evaluated case."""
        self.evaluations += 1
        for lab in labels:
            self.classes[lab] += 1
        if nontrivial:
            h = case if isinstance(case, str) and len(case) == 16 else case_hash(case)
            if h not in self.nontrivial:
                self.nontrivial.add(h)
                if len(self.samples) < MAX_SAMPLES:
                    self.samples.append(canon(sample if sample is not None else case))

    def label(self, *labels: str) -> None:
        for lab in labels:
            self.classes[lab] += 1

    # ---- findings --------------------------------------------------------
    def fail(self, case: Any, message: str, signature: str = "") -> None:
        """Report a failing case.  A case whose *signature* is listed in
        known_findings.json is counted and the search goes on; anything else
        raises :class:`Violation`."""
        if signature and os.environ.get("VERIF_COLLECT") == "1":
            # triage mode (never used by registered commands): tally every signature, keep searching
            self.known_hits["COLLECT " + signature] += 1
            self.known_examples.setdefault("COLLECT " + signature, {"case": canon(case), "message": message})
            return
        if signature and signature in self.accepted:
            self.known_hits[signature] += 1
            self.known_examples.setdefault(signature, {"case": canon(case), "message": message})
            return
        raise Violation(case, message, signature)

    def record_violation(self, v: Violation) -> None:
        d = VERIF_DIR / "replays" / self.prop_id
        d.mkdir(parents=True, exist_ok=True)
        payload = {
            "property_id": self.prop_id,
            "message": v.message,
            "signature": v.signature,
            "seed": self.seed,
            "tier": self.tier,
            "case": canon(v.case),
        }
        path = d / f"{case_hash(v.case)}.json"
        path.write_text(json.dumps(payload, indent=1, sort_keys=True, ensure_ascii=False))
        self.violations.append({"replay": str(path), "message": v.message, "signature": v.signature})

    def result(self) -> dict:
        return {
            "shard": self.shard,
            "evaluations": self.evaluations,
            "nontrivial": sorted(self.nontrivial),
            "classes": dict(self.classes),
            "samples": self.samples,
            "known_hits": dict(self.known_hits),
            "known_examples": self.known_examples,
            "excluded": dict(self.excluded),
            "extra": canon(self.extra),
            "violations": self.violations,
            "wall_s": time.time() - self.t0,
        }


def hyp_run(
    ctx: Ctx,
    name: str,
    strategy: Any,
    check: Callable[[Any], None],
    max_examples: int,
    shrink: Optional[bool] = None,
) -> bool:
    """Drive *check* with Hypothesis.  Returns False when a violation was
    recorded.  Every random choice comes from *strategy*; the run is a pure
    function of (code, VERIF_SEED, property, name, shard)."""
    import hypothesis
    from hypothesis import HealthCheck, Phase, given, settings
    from hypothesis import seed as hseed

    if max_examples <= 0:
        return True
    if shrink is None:
        shrink = ctx.tier == "thorough" or os.environ.get("VERIF_SHRINK") == "1"
    phases = [Phase.explicit, Phase.generate]
    if shrink:
        phases.append(Phase.shrink)

    seen: list = []

    @hseed(derive_seed(ctx.seed, ctx.prop_id, name, ctx.shard))
    @settings(
        max_examples=max_examples,
        database=None,
        deadline=None,
        derandomize=False,
        report_multiple_bugs=False,
        print_blob=False,
        phases=phases,
        suppress_health_check=[HealthCheck.too_slow, HealthCheck.data_too_large],
    )
    @given(strategy)
    def _t(case):
        try:
            check(case)
        except Violation as v:
            seen.append(v)
            raise

    try:
        _t()
    except Violation as v:
        ctx.record_violation(v)
        return False
    except hypothesis.errors.Flaky as e:  # type: ignore[attr-defined]
        if seen:
            # The oracle failed on the real code, but not again when Hypothesis re-ran the same case: the
            # manifestation depends on something outside the case (e.g. the order in which a set of paths
            # is iterated, which varies with the scratch directory name).  It is still an observed violation.
            v = seen[0]
            v.message = v.message + "  [observed once; did not recur on an immediate re-run of the same case: order- or state-dependent]"
            ctx.record_violation(v)
            return False
        raise HarnessError(f"{ctx.prop_id}/{name}: flaky check: {e}") from e
    except hypothesis.errors.FailedHealthCheck as e:
        raise HarnessError(f"{ctx.prop_id}/{name}: generator health check: {e}") from e
    return True


def load_corpus(prop_id: str) -> list[tuple[str, Any]]:
    d = VERIF_DIR / "corpus" / prop_id
    out = []
    if d.is_dir():
        for f in sorted(d.glob("*.json")):
            data = json.loads(f.read_text())
            out.append((f.name, decanon(data.get("case", data))))
    return out
