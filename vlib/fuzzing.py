"""Coverage-guided stage: run one target of vlib/fuzz_targets.py under atheris
in a subprocess and fold what it did into the shard's counters.

A libFuzzer campaign is pinned by -seed and a fresh corpus directory only
approximately; the saved failing input is the reproducible unit (it is replayed
through the plain target function, without the fuzzer).
"""

import json
import os
import subprocess
import sys
from pathlib import Path

from .core import VERIF_DIR, HarnessError, decanon, derive_seed

DICT = {
    "toml": ["version", "annotations", "[[annotations]]", "path", "precedence", "SPDX-FileCopyrightText", "SPDX-License-Identifier", "closest", "aggregate", "override",
             " = ", "\n", "'", "\"", "[", "]", "{", "}", "**", "MIT", "1", "true", "1979-05-27", "\\"],
    "dep5": ["Format: ", "Files: ", "Copyright: ", "License: ", "Upstream-Name: ", "Comment: ", "\n\n", "\n ", " .", "*", "?", "\\", "MIT", "https://www.debian.org/doc/packaging-manuals/copyright-format/1.0/"],
    "content": ["SPDX-License-Identifier: ", "SPDX-FileCopyrightText: ", "SPDX-FileContributor: ", "SPDX-SnippetBegin", "SPDX-SnippetEnd", "SPDX-SnippetCopyrightText: ", "REUSE-IgnoreStart",
                "REUSE-IgnoreEnd", "Copyright ", "(C) ", "© ", "MIT", " AND ", " OR ", " WITH ", "(", ")", "/*", "*/", "<!--", "-->", "#", "//", "{#", "#}", "#=", "=#", "(*", "*)", "\r\n", "\ufeff"],
    "ignore": ["REUSE-IgnoreStart", "REUSE-IgnoreEnd", "REUSE-Ignore", "Start", "End", "SPDX-License-Identifier: ", "SPDX-FileCopyrightText: ", "SPDX-FileContributor: ", "Copyright ", "MIT", "ISC", " AND ",
               "\n", "# ", "/* ", " */", "(", "SPDX-SnippetBegin", "SPDX-SnippetEnd"],
    "glob": ["*", "**", "**/", "/**", "\\", "\\*", "/", ".", "\x00"],
}
SEEDS = {
    "toml": [b"version = 1\n\n[[annotations]]\npath = \"src/**\"\nprecedence = \"closest\"\nSPDX-FileCopyrightText = \"2020 Jane\"\nSPDX-License-Identifier = \"MIT\"\n",
             b"version = 1\nSPDX-PackageName = 'x'\n[[annotations]]\npath = ['a', 'b\\\\*']\nprecedence = 'override'\nSPDX-FileCopyrightText = ['A', 'B']\nSPDX-License-Identifier = ['MIT', 'ISC OR 0BSD']\n"],
    "dep5": [b"Format: https://www.debian.org/doc/packaging-manuals/copyright-format/1.0/\nUpstream-Name: x\n\nFiles: src/* doc/a?.md\nCopyright: 2020 Jane\n 2021 Joe\nLicense: MIT\n\nFiles: *\nCopyright: X\nLicense: GPL-2.0+ with exception\n Full text\n .\n more\n"],
    "content": [b"\x00# SPDX-FileCopyrightText: 2020 Jane\n#\n# SPDX-License-Identifier: MIT OR (ISC AND 0BSD)\n\ncode\n", b"\x05/*\n * Copyright (C) 2019 X\n * SPDX-License-Identifier: MIT\n */\nint x;\n",
                b"\x09<!--\nSPDX-FileCopyrightText: A\n-->\n# REUSE-IgnoreStart\nSPDX-License-Identifier: nope (\n# REUSE-IgnoreEnd\n# SPDX-SnippetBegin\n# SPDX-SnippetCopyrightText: B\n# SPDX-SnippetEnd\n"],
    "ignore": [b"# SPDX-License-Identifier: MIT\n# REUSE-IgnoreStart\n# SPDX-License-Identifier: ISC\n# REUSE-IgnoreEnd\n# SPDX-FileCopyrightText: 2020 A\n",
               b"REUSE-IgnoreEnd SPDX-License-Identifier: 0BSD\nREUSE-IgnoreStart Copyright hidden REUSE-IgnoreStart x REUSE-IgnoreEnd Copyright (C) 2001 B\n"],
    "glob": [b"src/**/*.py\x00src/a/b.py", b"a\\*b*\x00a*bc", b"**\x00x/y"],
}


def dict_escape(word: str) -> str:
    """libFuzzer dictionary syntax: printable ASCII as is, everything else (and the quote / backslash) as \\xNN."""
    return "".join(chr(b) if 32 <= b < 127 and chr(b) not in '"\\' else f"\\x{b:02x}" for b in word.encode("utf-8"))


def run_stage(ctx, target: str, runs: int, max_len: int = 400) -> None:
    """Run *runs* executions of *target*; even shards start from a few valid
    inputs, odd shards from an empty corpus."""
    from . import fuzz_targets

    work = ctx.fresh_dir("fuzz")
    corpus = work / "corpus"
    corpus.mkdir()
    seeded = ctx.shard % 2 == 0
    if seeded:
        for i, s in enumerate(SEEDS[target]):
            (corpus / f"seed{i}").write_bytes(s)
    dict_file = work / "dict"
    dict_file.write_text("".join('"' + dict_escape(w) + '"\n' for w in DICT[target]))
    stats, fail = work / "stats.json", work / "fail.json"
    seed = derive_seed(ctx.seed, ctx.prop_id, "atheris", target, ctx.shard) % (2**31 - 1) + 1
    cmd = [sys.executable, "-B", str(VERIF_DIR / "vlib" / "fuzz_driver.py"), target, str(stats), str(fail),
           f"-runs={runs}", f"-seed={seed}", f"-max_len={max_len}", f"-dict={dict_file}", "-print_final_stats=0", "-verbosity=0", str(corpus)]
    env = dict(os.environ)
    env.pop("PYTHONPATH", None)
    p = subprocess.run(cmd, cwd=str(work), env=env, capture_output=True, text=True, check=False)
    if p.returncode == 3:
        ctx.label("atheris:not-installed")
        ctx.extra["atheris"] = "not installed: coverage-guided stage skipped"
        return
    if not stats.exists():
        raise HarnessError(f"fuzz driver for {target} left no statistics (exit {p.returncode}): {p.stderr[-800:]}")
    st = json.loads(stats.read_text())
    ctx.evaluations += st["runs"]
    ctx.nontrivial.update(st["nontrivial"])
    ctx.classes[f"atheris:{target}:runs"] += st["runs"]
    ctx.classes[f"atheris:{target}:nontrivial"] += st["nontrivial_total"]
    ctx.classes[f"atheris:{target}:{'seeded' if seeded else 'empty'}-corpus-campaigns"] += 1
    ctx.extra["atheris_runs"] = ctx.extra.get("atheris_runs", 0) + st["runs"]
    for s in st["samples"][:1]:
        if len(ctx.samples) < 8:
            ctx.samples.append(s)
    if fail.exists():
        f = json.loads(fail.read_text())
        case = {"fuzz": f["fuzz"], "data": decanon(f["data"])}
        # confirm outside the fuzzer before reporting
        _nt, message = fuzz_targets.TARGETS[target](case["data"])
        if message is None:
            raise HarnessError(f"fuzzer-reported failure does not reproduce through the plain target: {f['message']}")
        ctx.fail(case, f"(coverage-guided, target {target}) {message}")
    elif p.returncode != 0:
        raise HarnessError(f"fuzz driver for {target} exit {p.returncode}: {p.stderr[-800:]}")


def replay(ctx, case) -> None:
    from . import fuzz_targets

    _nt, message = fuzz_targets.TARGETS[case["fuzz"]](case["data"])
    ctx.count(case, nontrivial=True, labels=[f"atheris-replay:{case['fuzz']}"])
    if message is not None:
        ctx.fail(case, f"(coverage-guided, target {case['fuzz']}) {message}")
