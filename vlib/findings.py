"""Known-findings file (committed, never written at run time).

``/verif/known_findings.txt`` holds one entry per line::

    known: property=<id> signature=<name> <what fails>
    fixed: property=<id> <commit> <what failed>

A ``known`` entry accepts failing cases whose signature (a predicate coded in
the property module, as narrow as the root cause) equals ``<name>``: they are
counted, reported as ``KNOWN-FINDING:`` and do not fail the check.  A ``fixed``
entry suppresses nothing.
"""

import re
from pathlib import Path

FILE = Path(__file__).resolve().parent.parent / "known_findings.txt"
_KNOWN = re.compile(r"^known:\s+property=(\S+)\s+signature=(\S+)\s+(.*)$")
_FIXED = re.compile(r"^fixed:\s+property=(\S+)\s+([0-9a-f]{7,40})\s+(.*)$")


def parse() -> tuple[list[dict], list[dict]]:
    known, fixed = [], []
    if not FILE.exists():
        return known, fixed
    for n, line in enumerate(FILE.read_text().splitlines(), 1):
        line = line.strip()
        if not line or line.startswith("#"):
            continue
        if m := _KNOWN.match(line):
            known.append({"property": m[1], "signature": m[2], "what": m[3]})
        elif m := _FIXED.match(line):
            fixed.append({"property": m[1], "commit": m[2], "what": m[3]})
        else:
            raise ValueError(f"{FILE}:{n}: unparseable line: {line!r}")
    return known, fixed


def accepted_signatures(prop_id: str) -> dict[str, str]:
    known, _ = parse()
    return {k["signature"]: k["what"] for k in known if k["property"] == prop_id}


if __name__ == "__main__":
    k, f = parse()
    print(f"known_findings.txt ok: {len(k)} known, {len(f)} fixed")
