"""Drivers for the code under test: in-process (fast, exact crash detection)
and subprocess (real interpreter parameters)."""

import contextlib
import io
import logging
import os
import subprocess
import sys
import warnings
from dataclasses import dataclass, field
from pathlib import Path
from typing import Optional, Sequence

from . import env


@dataclass
class Result:
    args: list
    code: int
    out: str
    err: str
    crash: Optional[BaseException] = None
    crash_tb: str = ""
    frames: list = field(default_factory=list)

    @property
    def crashed(self) -> bool:
        return self.crash is not None

    def brief(self) -> dict:
        return {
            "args": [str(a) for a in self.args],
            "code": self.code,
            "out": self.out[-2000:],
            "err": self.err[-2000:],
            "crash": repr(self.crash) if self.crash is not None else None,
        }


def _reset_state() -> None:
    os.environ.pop("_SUPPRESS_DEP5_WARNING", None)
    lg = logging.getLogger("reuse")
    for h in list(lg.handlers):
        lg.removeHandler(h)
    lg.setLevel(logging.NOTSET)


def run(args: Sequence, cwd, *, env_extra: Optional[dict] = None) -> Result:
    """Run ``reuse <args>`` in-process with cwd *cwd*.  SystemExit gives the
    exit status; any other escaping exception is a crash (what a user would
    see as a traceback and exit status 1)."""
    env.setup()
    from reuse.cli.main import main  # noqa: PLC0415
    import reuse.cli  # noqa: F401,PLC0415  (registers sub-commands)

    args = [str(a) for a in args]
    _reset_state()
    old_cwd = os.getcwd()
    out, err = io.StringIO(), io.StringIO()
    code = 0
    crash = None
    tb = ""
    frames: list = []
    saved_env = {}
    if env_extra:
        for k, v in env_extra.items():
            saved_env[k] = os.environ.get(k)
            os.environ[k] = v
    saved_filters = warnings.filters[:]
    try:
        os.chdir(cwd)
        with contextlib.redirect_stdout(out), contextlib.redirect_stderr(err):
            with warnings.catch_warnings():
                try:
                    main.main(args=args, prog_name="reuse", standalone_mode=True)
                except SystemExit as e:
                    c = e.code
                    if c is None:
                        code = 0
                    elif isinstance(c, int):
                        code = c
                    else:
                        err.write(str(c))
                        code = 1
                except KeyboardInterrupt:
                    raise
                except BaseException as e:  # noqa: BLE001
                    import traceback

                    crash = e
                    code = 1
                    tb = traceback.format_exc()
                    frames = [
                        (f.filename, f.lineno, f.name)
                        for f in traceback.extract_tb(e.__traceback__)
                    ]
    finally:
        os.chdir(old_cwd)
        warnings.filters[:] = saved_filters
        for k, v in saved_env.items():
            if v is None:
                os.environ.pop(k, None)
            else:
                os.environ[k] = v
        _reset_state()
    return Result(args, code, out.getvalue(), err.getvalue(), crash, tb, frames)


def run_sub(
    args: Sequence,
    cwd,
    *,
    hashseed: Optional[int] = None,
    timeout: float = 120.0,
) -> Result:
    """Run ``python -m reuse <args>`` in a fresh interpreter."""
    repo = env.setup()
    e = dict(os.environ)
    e["PYTHONPATH"] = str(repo / "src")
    e["PYTHONDONTWRITEBYTECODE"] = "1"
    if hashseed is not None:
        e["PYTHONHASHSEED"] = str(hashseed)
    e.pop("_SUPPRESS_DEP5_WARNING", None)
    p = subprocess.run(
        [sys.executable, "-B", "-m", "reuse", *[str(a) for a in args]],
        cwd=str(cwd),
        env=e,
        capture_output=True,
        timeout=timeout,
        check=False,
    )
    out = p.stdout.decode("utf-8", "replace")
    err = p.stderr.decode("utf-8", "replace")
    crash = None
    if "Traceback (most recent call last)" in err and p.returncode not in (0, 2) and not out.strip():
        # A handled per-file error is logged with its traceback too, but then the
        # command still prints its report; an unhandled exception ends the process
        # with status 1 and nothing on stdout.
        tail = err.strip().splitlines()[-1] if err.strip() else ""
        crash = RuntimeError(tail)
    return Result([str(a) for a in args], p.returncode, out, err, crash)


def innermost_reuse_frame(res: Result) -> str:
    """(file:function) of the innermost frame inside the reuse package."""
    for filename, _lineno, name in reversed(res.frames):
        if "/reuse/" in filename:
            return f"{Path(filename).name}:{name}"
    if res.frames:
        filename, _lineno, name = res.frames[-1]
        return f"{Path(filename).name}:{name}"
    return "?"
